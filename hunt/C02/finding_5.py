"""
Finding 5: DateTime relies on time.strptime(), which is far more lenient than
"a real calendar date/time in the DD/MM/YYYY/YY/hh/mm/ss layout of the rule":
a blank instead of the leading zero of the day, one digit parts (which makes
layouts without separators ambiguous), any run of any white space for a single
blank in the rule, letters of the rule matched ignoring case - and seconds 60
and 61, which no real time of day has (61 never existed even as leap second).

Run: cd /tmp/wh_c02 && PYTHONPATH=/tmp/wh_c02 /venv/bin/python -W ignore /tmp/hunt_c02/finding_5.py
"""
import io
import sys

from cutplace import data, errors, fields, interface, validio

violations = []
delimited = data.DataFormat(data.FORMAT_DELIMITED)
delimited.validate()

CASES = (
    # rule, accepted original, single mutations that leave the layout / the calendar
    ("DD/MM/YYYY", "01/02/2020", [" 1/02/2020", "1/02/2020", "01/2/2020"]),
    ("YYYYMMDD", "20200102", ["2020012", "2020102", "202012"]),
    ("DDMMYYYY", "01122020", ["1122020"]),
    ("hh:mm:ss", "12:30:59", ["12:30:60", "12:30:61", "1:30:59", "12:3:5"]),
    ("YYYY-MM-DD hh:mm", "2020-01-02 03:04", ["2020-01-02  03:04", "2020-01-02\t03:04", "2020-01-02\n03:04", "2020-01-02 03:04"]),
    ("YYYY-MM-DDThh:mm:ssZ", "2020-01-02T03:04:05Z", ["2020-01-02t03:04:05Z", "2020-01-02T03:04:05z"]),
)
for rule, original, mutations in CASES:
    field_format = fields.DateTimeFieldFormat("d", False, "", rule, delimited)
    print("rule %r: original %r -> %r" % (rule, original, tuple(field_format.validated(original))[:6]))
    for mutation in mutations:
        try:
            result = field_format.validated(mutation)
            print("    mutation %-24r ACCEPTED as %r" % (mutation, tuple(result)[:6]))
            violations.append("rule %r: %r accepted as %r" % (rule, mutation, tuple(result)[:6]))
        except errors.FieldValueError:
            print("    mutation %-24r rejected" % mutation)

# End to end
cid = interface.create_cid_from_string(
    "D,Format,Delimited\n"
    " ,Name,Example,Empty,Length,Type,Rule\n"
    "F,day,,,,DateTime,DD/MM/YYYY\n"
    "F,at,,,,DateTime,hh:mm:ss\n"
)
line = " 1/02/2020,23:59:61"
try:
    validio.validate(cid, io.StringIO(line + "\n"))
    print("end to end: line %r accepted" % line)
    violations.append("end to end: line %r accepted" % line)
except errors.DataError as error:
    print("end to end: line %r rejected: %s" % (line, error))

print()
if violations:
    print("VIOLATION of C02 (DateTime: a real calendar date/time in the layout of the rule):")
    for violation in violations:
        print("  -", violation)
    sys.exit(1)
print("no violation observed")
sys.exit(0)
