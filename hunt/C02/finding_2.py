"""
Finding 2: DecimalFieldFormat.validated_value() translates the separators
character by character and does not check that the cell is a number written
with them:

(a) With decimal separator "," and the default thousands separator (none), a
    "." is passed on to decimal.Decimal() unchanged, so "1.5" is accepted as
    Decimal('1.5') although the declared decimal separator is the comma.
(b) A thousands separator is dropped wherever it stands in front of the
    decimal separator: first, last, doubled, after the sign, inside the
    exponent, groups of one digit. With the German convention ".5" is
    accepted as 5 and "1e.3" as 1000.

Run: cd /tmp/wh_c02 && PYTHONPATH=/tmp/wh_c02 /venv/bin/python -W ignore /tmp/hunt_c02/finding_2.py
"""
import decimal
import io
import sys

from cutplace import data, errors, fields, interface, validio

violations = []


def create_data_format(format_name, decimal_separator, thousands_separator):
    result = data.DataFormat(format_name)
    result.set_property(data.KEY_DECIMAL_SEPARATOR, decimal_separator)
    if thousands_separator is not None:
        result.set_property(data.KEY_THOUSANDS_SEPARATOR, thousands_separator)
    result.validate()
    return result


def probe(field_format, value, what):
    try:
        result = field_format.validated(value)
    except errors.FieldValueError:
        print("  %-14r rejected" % value)
        return
    print("  %-14r ACCEPTED as %r" % (value, result))
    violations.append("%s: %r accepted as %r" % (what, value, result))


print("(a) decimal separator ',' and default thousands separator")
for format_name in (data.FORMAT_DELIMITED, data.FORMAT_FIXED):
    data_format = create_data_format(format_name, ",", None)
    length = "8" if format_name == data.FORMAT_FIXED else ""
    for rule in ("", "0...9.99"):
        what = "%s, decimal=',', thousands=%r, rule %r" % (format_name, data_format.thousands_separator, rule)
        print(what)
        field_format = fields.DecimalFieldFormat("amount", False, length, rule, data_format)
        assert field_format.validated("1,5") == decimal.Decimal("1.5")  # the proper spelling
        for value in ("1.5", "0.25", "3.0"):
            probe(field_format, value, what)

print("(b) misplaced thousands separators")
CONVENTIONS = (
    (".", ",", "1,234.5", [",1", "1,", "-,1", "1,,234.5", "1,2,3,4.5", "12,34.5", "1e,3", ",.5", "1,234,.5"]),
    (",", ".", "1.234,5", [".1", "1.", "-.1", "1..234,5", "1.2.3.4,5", "12.34,5", "1e.3", ".,5", "1.234.,5"]),
)
for decimal_separator, thousands_separator, proper_value, broken_values in CONVENTIONS:
    data_format = create_data_format(data.FORMAT_DELIMITED, decimal_separator, thousands_separator)
    field_format = fields.DecimalFieldFormat("amount", False, "", "", data_format)
    what = "delimited, decimal=%r, thousands=%r" % (decimal_separator, thousands_separator)
    print(what)
    assert field_format.validated(proper_value) == decimal.Decimal("1234.5")
    for broken_value in broken_values:
        probe(field_format, broken_value, what)

print("end to end")
cid_a = interface.create_cid_from_string(
    "D,Format,Delimited\n"
    "D,Item delimiter,;\n"
    'D,Decimal separator,","\n'
    " ,Name,Example,Empty,Length,Type,Rule\n"
    "F,amount,,,,Decimal,0...100\n"
)
cid_b = interface.create_cid_from_string(
    "D,Format,Delimited\n"
    "D,Item delimiter,;\n"
    'D,Decimal separator,","\n'
    "D,Thousands separator,.\n"
    " ,Name,Example,Empty,Length,Type,Rule\n"
    "F,amount,,,,Decimal,1...100\n"
)
for name, cid, line in (("a", cid_a, "17.25"), ("b", cid_b, ".5"), ("b", cid_b, "1e.1")):
    try:
        validio.validate(cid, io.StringIO(line + "\n"))
        print("  (%s) %s: row %r ACCEPTED" % (name, cid.field_formats[0].valid_range, line))
        violations.append("end to end (%s): row %r accepted" % (name, line))
    except errors.DataError as error:
        print("  (%s) row %r rejected: %s" % (name, line, error))

print()
if violations:
    print("VIOLATION of C02 (Decimal: a number written with the data format's decimal and thousands separators):")
    for violation in violations:
        print("  -", violation)
    sys.exit(1)
print("no violation observed")
sys.exit(0)
