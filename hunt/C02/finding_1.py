"""
Finding 1: With data format Excel, a DateTime rule that itself ends in the
literal text " 00:00:00" (the rule the documentation recommends for Excel
date cells: "YYYY-MM-DD 00:00:00") rejects every value that is written
exactly in the layout of the rule and accepts a value that is not.

Run: cd /tmp/wh_c02 && PYTHONPATH=/tmp/wh_c02 /venv/bin/python -W ignore /tmp/hunt_c02/finding_1.py
"""
import datetime
import os
import sys
import tempfile

import xlsxwriter

from cutplace import data, errors, fields, interface, validio

RULE = "YYYY-MM-DD 00:00:00"
IN_LAYOUT = "2020-01-02 00:00:00"  # exactly what rowio.excel_rows() yields for an Excel date cell
NOT_IN_LAYOUT = "2020-01-02 00:00:00 00:00:00"

violations = []


def accepts(field_format, value):
    try:
        result = field_format.validated(value)
        return True, result
    except errors.FieldValueError as error:
        return False, error


# --- 1. Field format level (public API cutplace.fields / cutplace.data).
for format_name in (data.FORMAT_DELIMITED, data.FORMAT_ODS, data.FORMAT_EXCEL):
    data_format = data.DataFormat(format_name)
    data_format.validate()
    field_format = fields.DateTimeFieldFormat("d", False, "", RULE, data_format)
    ok_in, detail_in = accepts(field_format, IN_LAYOUT)
    ok_out, detail_out = accepts(field_format, NOT_IN_LAYOUT)
    print("%-9s rule %r: %r -> %s" % (format_name, RULE, IN_LAYOUT, "accepted" if ok_in else "REJECTED: %s" % detail_in))
    print("%-9s rule %r: %r -> %s" % (format_name, RULE, NOT_IN_LAYOUT, "ACCEPTED" if ok_out else "rejected"))
    if not ok_in:
        violations.append("%s: value in the layout of the rule is rejected" % format_name)
    if ok_out:
        violations.append("%s: value not in the layout of the rule is accepted" % format_name)

# --- 2. End to end: a real Excel date cell validated with the rule from docs/writing-an-icd.rst.
cid = interface.create_cid_from_string(
    "D,Format,Excel\n" " ,Name,Example,Empty,Length,Type,Rule\n" "F,day,,,,DateTime,%s\n" % RULE
)
with tempfile.TemporaryDirectory() as folder:
    xlsx_path = os.path.join(folder, "dates.xlsx")
    workbook = xlsxwriter.Workbook(xlsx_path)
    worksheet = workbook.add_worksheet()
    worksheet.write_datetime(0, 0, datetime.date(2020, 1, 2), workbook.add_format({"num_format": "yyyy-mm-dd"}))
    workbook.close()
    try:
        validio.validate(cid, xlsx_path)
        print("end to end: Excel date cell 2020-01-02 accepted by rule %r" % RULE)
    except errors.DataError as error:
        print("end to end: Excel date cell 2020-01-02 REJECTED by rule %r: %s" % (RULE, error))
        violations.append("excel end to end: date cell rejected by the documented rule")

print()
if violations:
    print("VIOLATION of C02 (DateTime accepts exactly the dates in the layout of the rule):")
    for violation in violations:
        print("  -", violation)
    sys.exit(1)
print("no violation observed")
sys.exit(0)
