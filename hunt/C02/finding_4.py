"""
Finding 4: Integer and Decimal hand the cell to Python's int() / decimal.Decimal(),
which accept much more than "an integer literal" / "a number": surrounding
white space (also line breaks and no-break space), underscores between digits
and - for Decimal rules without upper or lower limit - "Infinity".

The flip side: with only a length given, the range derived from the length is
applied to the int() result instead of the text, so integers whose text fits
the length but has leading zeros or a sign ("007", "+07", "-07", "-00" for
length 3) are rejected - although the same field without a length accepts "007".

Run: cd /tmp/wh_c02 && PYTHONPATH=/tmp/wh_c02 /venv/bin/python -W ignore /tmp/hunt_c02/finding_4.py
"""
import io
import sys

from cutplace import data, errors, fields, interface, validio

violations = []
delimited = data.DataFormat(data.FORMAT_DELIMITED)
delimited.validate()
spreadsheet = data.DataFormat(data.FORMAT_ODS)
spreadsheet.validate()


def probe(field_format, value, what):
    try:
        result = field_format.validated(value)
    except errors.FieldValueError:
        print("  %-34s %-12r rejected" % (what, value))
        return
    print("  %-34s %-12r ACCEPTED as %r" % (what, value, result))
    violations.append("%s: %r accepted as %r" % (what, value, result))


print("Integer (single mutations of the accepted value '15' / '1000'):")
for data_format in (delimited, spreadsheet):
    integer_format = fields.IntegerFieldFormat("n", False, "", "0...5000", data_format)
    what = "Integer 0...5000 (%s)" % data_format.format
    assert integer_format.validated("15") == 15
    for value in (" 15", "15 ", "15\n", "\t15", " 15", "1_5", "1_000"):
        probe(integer_format, value, what)

print("Decimal:")
decimal_format = fields.DecimalFieldFormat("x", False, "", "0...5000.00", delimited)
for value in (" 1.5", "1.5\n", "1_0.5", "1_000.2_5"):
    probe(decimal_format, value, "Decimal 0...5000.00 (delimited)")
for rule, value in (("0...", "Infinity"), ("0...", "inf"), ("0.00...", "+INFINITY"), ("...0", "-Infinity")):
    probe(fields.DecimalFieldFormat("x", False, "", rule, delimited), value, "Decimal %s (delimited)" % rule)

print("Integer with only a length (delimited):")
for length in ("3", "2...3"):
    integer_format = fields.IntegerFieldFormat("n", False, length, "", delimited)
    print("  length %r -> derived range %s" % (length, integer_format.valid_range))
    assert integer_format.validated("123") == 123
    for value in ("007", "+07", "-07", "-00", "042"):
        try:
            result = integer_format.validated(value)
            print("  Integer length %-6r %-8r accepted as %r" % (length, value, result))
        except errors.FieldValueError as error:
            print("  Integer length %-6r %-8r REJECTED (%s)" % (length, value, error))
            violations.append("Integer with only length %r: %r (an integer with %d characters) rejected" % (length, value, len(value)))
print("  without length: '007' ->", fields.IntegerFieldFormat("n", False, "", "", delimited).validated("007"))

# End to end: the white space really arrives at the field (skip initial space is off by default).
cid = interface.create_cid_from_string(
    "D,Format,Delimited\n"
    " ,Name,Example,Empty,Length,Type,Rule\n"
    "F,n,,,,Integer,0...5000\n"
    "F,x,,,,Decimal,0...\n"
)
for line in ("15,1.5", " 1_5 ,Infinity"):
    try:
        rows = list(validio.rows(cid, io.StringIO(line + "\n")))
        print("end to end: line %r accepted, row=%r" % (line, rows))
        if line != "15,1.5":
            violations.append("end to end: line %r accepted" % line)
    except errors.DataError as error:
        print("end to end: line %r rejected: %s" % (line, error))

print()
if violations:
    print("VIOLATION of C02 (Integer: an integer literal ...; Decimal: a number ... inside the rule's range):")
    for violation in violations:
        print("  -", violation)
    sys.exit(1)
print("no violation observed")
sys.exit(0)
