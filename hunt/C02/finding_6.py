r"""
Finding 6: Choice and Constant rules are split into Python tokens, but the
value of a string token is taken as token_text[1:-1] instead of the text the
string literal denotes. As soon as a listed value needs an escape sequence
(\" \' \\ \t \xe4 ...), a string prefix (u"...", r"...") or triple quotes, the
listed value is rejected and a different text (backslashes and quotes
included) is accepted instead.

Run: cd /tmp/wh_c02 && PYTHONPATH=/tmp/wh_c02 /venv/bin/python -W ignore /tmp/hunt_c02/finding_6.py
"""
import ast
import io
import sys

from cutplace import data, errors, fields, interface, validio

violations = []
delimited = data.DataFormat(data.FORMAT_DELIMITED)
delimited.validate()


def is_accepted(field_format, value):
    try:
        return field_format.validated(value) == value
    except errors.FieldValueError:
        return False


CHOICE_RULES = (
    r'''"yes", "no", "don't know", "say \"maybe\""''',
    r'''"a\\b", "tab\there"''',
    r'''u"ärger", "fine"''',
    r'''r"raw", """triple"""''',
)
for rule in CHOICE_RULES:
    listed_values = list(ast.literal_eval("(" + rule + ",)"))  # what the Python string tokens of the rule denote
    field_format = fields.ChoiceFieldFormat("c", False, "", rule, delimited)
    print("Choice rule: %s" % rule)
    print("  internal choices: %r" % field_format.choices)
    for listed_value in listed_values:
        accepted = is_accepted(field_format, listed_value)
        print("  listed value   %-18r %s" % (listed_value, "accepted" if accepted else "REJECTED"))
        if not accepted:
            violations.append("Choice %s: listed value %r rejected" % (rule, listed_value))
    for internal_choice in field_format.choices:
        if internal_choice not in listed_values and is_accepted(field_format, internal_choice):
            print("  unlisted value %-18r ACCEPTED" % internal_choice)
            violations.append("Choice %s: unlisted value %r accepted" % (rule, internal_choice))

for rule in (r'"5\" disk"', r'u"x"', r"'it\'s'"):
    constant = ast.literal_eval(rule)
    field_format = fields.ConstantFieldFormat("k", False, "", rule, delimited)
    accepted = is_accepted(field_format, constant)
    print("Constant rule %s: constant %r %s" % (rule, constant, "accepted" if accepted else "REJECTED"))
    if not accepted:
        violations.append("Constant %s: the constant %r is rejected" % (rule, constant))
    raw_inner = rule[1:-1]
    if raw_inner != constant and is_accepted(field_format, raw_inner):
        print("Constant rule %s: other text %r ACCEPTED" % (rule, raw_inner))
        violations.append("Constant %s: %r accepted" % (rule, raw_inner))

# End to end through a CID
cid = interface.create_cid_from_string(
    "D,Format,Delimited\n"
    "D,Item delimiter,;\n"
    " ,Name,Example,Empty,Length,Type,Rule\n"
    'F,answer,,,,Choice,"""yes"", ""say \\""maybe\\"""""\n'
)
print("end to end rule: %s  (choices %r)" % (cid.field_formats[0].rule, cid.field_formats[0].choices))
for cell in ('say "maybe"', 'say \\"maybe\\"'):
    line = '"%s"' % cell.replace('"', '""')
    try:
        validio.validate(cid, io.StringIO(line + "\n"))
        print("  end to end: cell %r accepted" % cell)
        if cell != 'say "maybe"':
            violations.append("end to end: cell %r accepted" % cell)
    except errors.DataError as error:
        print("  end to end: cell %r rejected" % cell)
        if cell == 'say "maybe"':
            violations.append("end to end: listed cell %r rejected" % cell)

print()
if violations:
    print("VIOLATION of C02 (Choice / Constant: exactly one of the listed values):")
    for violation in violations:
        print("  -", violation)
    sys.exit(1)
print("no violation observed")
sys.exit(0)
