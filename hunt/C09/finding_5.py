"""
C09 finding 5: examples are validated against the data format as declared so
far instead of the data format of the CID. With data format rows after field
rows, (1) an example the field does not accept is accepted and (2) moving
property rows (a meaning preserving rewrite) turns an accepted CID into a
rejected one.
Exit code 1 if the violation occurs, 0 otherwise.
"""
import sys

from cutplace import errors, interface

violated = False

# (1) Example that its own field rejects.
cid_text = "D,Format,Delimited\nF,name,Ünal\nD,Allowed characters,32...127\n"
try:
    cid = interface.create_cid_from_string(cid_text)
    name_format = cid.field_format_for("name")
    print("ACCEPTED with example %r and allowed characters %s" % (name_format.example, cid.data_format.allowed_characters))
    try:
        name_format.validated(name_format.example)
        print("  the field accepts its example")
    except errors.FieldValueError as error:
        print("  but the field REJECTS its own example: %s" % error)
        violated = True
except errors.InterfaceError as error:
    print("rejected as required: %s" % error)
# Control: same rows, property first.
try:
    interface.create_cid_from_string("D,Format,Delimited\nD,Allowed characters,32...127\nF,name,Ünal\n")
    print("control: ACCEPTED (unexpected)")
except errors.InterfaceError as error:
    print("control with the property row first is rejected: %s" % error)

# (2) Reordered properties change acceptance.
properties_first = 'D,Format,Delimited\nD,Decimal separator,","\nD,Thousands separator,.\nF,amount,"1.234,5",,,Decimal\n'
properties_last = 'D,Format,Delimited\nF,amount,"1.234,5",,,Decimal\nD,Decimal separator,","\nD,Thousands separator,.\n'
results = []
for description, text in (("properties before field", properties_first), ("properties after field", properties_last)):
    try:
        cid = interface.create_cid_from_string(text)
        results.append(True)
        print("%s: ACCEPTED, example=%r" % (description, cid.field_format_for("amount").example))
    except errors.InterfaceError as error:
        results.append(False)
        print("%s: REJECTED: %s" % (description, error))
if results[0] != results[1]:
    print("the same rows in a different order are not treated the same")
    violated = True

sys.exit(1 if violated else 0)
