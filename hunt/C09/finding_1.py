"""
C09 finding 1: a check row placed between field rows is accepted although
"every check follows the fields".
Exit code 1 if the violation occurs, 0 otherwise.
"""
import sys

from cutplace import errors, interface

CID_TEXT = "\n".join(
    [
        "D,Format,Delimited",
        "F,customer_id",
        "C,customer_id must be unique,IsUnique,customer_id",  # check BEFORE the last field
        "F,surname",
        "F,first_name",
        "",
    ]
)

violated = False
try:
    cid = interface.create_cid_from_string(CID_TEXT)
    print("ACCEPTED: fields=%s checks=%s" % (cid.field_names, cid.check_names))
    print("the check in row 3 precedes the fields declared in rows 4 and 5")
    violated = True
except errors.InterfaceError as error:
    print("rejected as required: %s" % error)

# Same with the programmatic route Cid.read().
cid = interface.Cid()
try:
    cid.read(
        "inline",
        [
            ["d", "format", "fixed"],
            ["f", "a", "", "", "3"],
            ["c", "chk", "DistinctCount", "a < 5"],
            ["f", "b", "", "", "3"],
        ],
    )
    print("ACCEPTED via Cid.read(): fields=%s checks=%s" % (cid.field_names, cid.check_names))
    violated = True
except errors.InterfaceError as error:
    print("rejected as required: %s" % error)

sys.exit(1 if violated else 0)
