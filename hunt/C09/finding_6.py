"""
C09 finding 6: surrounding blanks are a meaning preserving rewrite only in
field rows and row markers; in data format rows and check rows they turn an
accepted CID into a rejected one.
Exit code 1 if the violation occurs, 0 otherwise.
"""
import copy
import csv
import io
import sys

from cutplace import errors, interface

BASE_ROWS = [
    ["D", "Format", "Delimited"],
    ["D", "Encoding", "utf-8"],
    ["D", "Line delimiter", "LF"],
    ["D", "Header", "1"],
    ["F", "a", "12", "X", "1...5", "Integer", "1...99"],
    ["F", "b", "", "", "", "Choice", "x, y"],
    ["C", "chk", "IsUnique", "a, b"],
    ["C", "chk2", "DistinctCount", "b < 3"],
]
SKIP = {(4, 2)}  # blanks around an example change the example, so leave it alone


def cid_text(rows):
    with io.StringIO() as target:
        csv.writer(target, lineterminator="\n").writerows(rows)
        return target.getvalue()


def summary(cid):
    return ([str(field_format) for field_format in cid.field_formats], [str(cid.check_for(name)) for name in cid.check_names])


base_cid = interface.create_cid_from_string(cid_text(BASE_ROWS))
base_summary = summary(base_cid)
print("base CID accepted: %s" % (base_summary,))

violated = False
tolerated = []
for row_index, row in enumerate(BASE_ROWS):
    for cell_index, cell in enumerate(row):
        if cell == "" or (row_index, cell_index) in SKIP:
            continue
        for kind, rewritten in (("leading blank", " " + cell), ("trailing blank", cell + " ")):
            rows = copy.deepcopy(BASE_ROWS)
            rows[row_index][cell_index] = rewritten
            where = "row %d cell %d %r" % (row_index + 1, cell_index + 1, rewritten)
            try:
                cid = interface.create_cid_from_string(cid_text(rows))
                tolerated.append(where)
            except errors.InterfaceError as error:
                print("REJECTED after %s in %s: %s" % (kind, where, str(error)[:120]))
                violated = True
print("tolerated: %s" % ", ".join(tolerated))

sys.exit(1 if violated else 0)
