"""
C09 finding 4: several rejections are interface errors whose text does not
name the offending row (no location at all, or the "location" True).
Exit code 1 if the violation occurs, 0 otherwise.
"""
import re
import sys

from cutplace import errors, interface

violated = False

CASES = [
    # (description, CID, offending row starting with 1)
    ("field type with unbalanced bracket", "D,Format,Delimited\nF,a\nF,b,,,,(Text\n", 3),
    ("field type with unterminated string", "D,Format,Delimited\nF,a\nF,b,,,,'Text\n", 3),
    ("IsUnique rule with unbalanced bracket", "D,Format,Delimited\nF,a\nC,chk,IsUnique,(a\n", 3),
    ("IsUnique rule with unterminated string", "D,Format,Delimited\nF,a\nC,chk,IsUnique,a 'b\n", 3),
    ("DistinctCount rule with unbalanced bracket", "D,Format,Delimited\nF,a\nC,chk,DistinctCount,a < (3\n", 3),
    ("DistinctCount rule with broken number", "D,Format,Delimited\nF,a\nC,chk,DistinctCount,a < 0x\n", 3),
    ("broken value for 'skip initial space'", "D,Format,Delimited\nD,Skip initial space,maybe\nF,a\n", 2),
    ("same decimal and thousands separator", "D,Format,Delimited\nD,Thousands separator,.\nF,a\n", 2),
    ("item delimiter same as quote character", 'D,Format,Delimited\nD,Item delimiter,""""\nF,a\n', 2),
    ("line feed as item delimiter", "D,Format,Delimited\nD,Item delimiter,10\nF,a\n", 2),
    # Control: the same kind of defect in a field rule is reported properly.
    ("control: Choice rule with unbalanced bracket", "D,Format,Delimited\nF,a\nF,b,,,,Choice,(x\n", 3),
]
for description, cid_text, offending_row in CASES:
    try:
        interface.create_cid_from_string(cid_text)
        print("%s: ACCEPTED (unexpected)" % description)
    except errors.InterfaceError as error:
        error_text = str(error)
        row_match = re.search(r"\(R(\d+)C\d+\)", error_text)
        if row_match is None:
            print("%s: NO ROW in error text, location=%r: %s" % (description, error.location, error_text))
            violated = True
        elif int(row_match.group(1)) != offending_row:
            print("%s: WRONG ROW in error text (expected %d): %s" % (description, offending_row, error_text))
            violated = True
        else:
            print("%s: ok, names row %d: %s" % (description, offending_row, error_text))

sys.exit(1 if violated else 0)
