"""
C09 finding 2: a DistinctCount check whose rule names an undeclared field is
accepted, as long as Python's short-circuit evaluation does not reach the
undeclared name while the distinct count is still 0.
Exit code 1 if the violation occurs, 0 otherwise.
"""
import io
import sys

from cutplace import errors, interface, validio

violated = False

RULES = [
    "branch_id < 1 or no_such_field",  # names the undeclared field "no_such_field"
    "branch_id >= 0 or no_such_field > 3",
    "branch_id > 0 and no_such_field",
    "branch_id if True else no_such_field",
]
for rule in RULES:
    cid_text = 'D,Format,Delimited\nF,branch_id\nC,distinct branches,DistinctCount,"%s"\n' % rule
    try:
        cid = interface.create_cid_from_string(cid_text)
        print("ACCEPTED rule %r although only %s are declared" % (rule, cid.field_names))
        violated = True
    except errors.InterfaceError as error:
        print("rejected as required: %r: %s" % (rule, error))

# Control: without short circuit the same undeclared name is rejected at the check row.
try:
    interface.create_cid_from_string("D,Format,Delimited\nF,branch_id\nC,distinct branches,DistinctCount,branch_id < no_such_field\n")
    print("control: ACCEPTED (unexpected)")
except errors.InterfaceError as error:
    print("control (no short circuit) is rejected: %s" % error)

# Consequence: the accepted CID fails with an InterfaceError only after all the data have been read.
try:
    cid = interface.create_cid_from_string(
        "D,Format,Delimited\nF,branch_id\nC,distinct branches,DistinctCount,branch_id < 1 or no_such_field\n"
    )
    with validio.Reader(cid, io.StringIO("38000\n38053\n")) as reader:
        for row in reader.rows():
            print("  read data row %s" % row)
except errors.InterfaceError as error:
    print("InterfaceError raised while reading DATA: %s" % error)

sys.exit(1 if violated else 0)
