"""
C09 finding 3: a Decimal field accepts a fractional number as length, even with
fixed data format where the length must be "one exact length of at least 1".
Exit code 1 if the violation occurs, 0 otherwise.
"""
import sys

from cutplace import errors, interface

violated = False


def attempt(description, cid_text, must_be_rejected):
    global violated
    try:
        cid = interface.create_cid_from_string(cid_text)
        print("ACCEPTED %s: %s" % (description, [str(field_format) for field_format in cid.field_formats]))
        if must_be_rejected:
            violated = True
        return cid
    except errors.InterfaceError as error:
        print("rejected %s: %s" % (description, error))
    return None


cid = attempt("fixed, Decimal, length 2.5", "D,Format,Fixed\nF,amount,,,2.5,Decimal\nF,name,,,3\n", True)
if cid is not None:
    print("  field_names_and_lengths() silently truncates: %s" % interface.field_names_and_lengths(cid))
attempt("fixed, Decimal, length 1.9", "D,Format,Fixed\nF,amount,1,,1.9,Decimal\n", True)
attempt("delimited, Decimal, length 0.5...1.5", "D,Format,Delimited\nF,amount,,,0.5...1.5,Decimal\n", True)
attempt("excel, Decimal, length 1e-3...", "D,Format,Excel\nF,amount,,,1e-3...,Decimal\n", True)
# Controls: the same lengths with any other field type are rejected at the field row.
attempt("control: fixed, Integer, length 2.5", "D,Format,Fixed\nF,amount,,,2.5,Integer\n", False)
attempt("control: fixed, Text, length 2.5", "D,Format,Fixed\nF,amount,,,2.5,Text\n", False)
attempt("control: delimited, Text, length 0.5...1.5", "D,Format,Delimited\nF,amount,,,0.5...1.5\n", False)

sys.exit(1 if violated else 0)
