"""C16 finding 6: validio.Reader(cid, source_data_stream_or_path) cannot read Excel data from a (binary) stream;
instead of the rows it reports the intact workbook as broken data."""
import io
import os
import sys
import tempfile

import xlsxwriter

from cutplace import errors, interface, validio

path = os.path.join(tempfile.mkdtemp(prefix="c16_f6_"), "some.xlsx")
workbook = xlsxwriter.Workbook(path)
for sheet_number in (1, 2):
    worksheet = workbook.add_worksheet()
    worksheet.write_string(0, 0, "sheet%d" % sheet_number)
    worksheet.write_number(0, 1, sheet_number)
workbook.close()

cid = interface.Cid()
cid.read("inline", [["d", "format", "excel"], ["d", "sheet", "2"], ["f", "name"], ["f", "number"]])
expected = [["sheet2", "2"]]
violated = False
with open(path, "rb") as binary_file:
    sources = [("path", path), ("open(path, 'rb')", binary_file), ("io.BytesIO", io.BytesIO(open(path, "rb").read()))]
    for name, source in sources:
        try:
            with validio.Reader(cid, source) as reader:
                actual = list(reader.rows())
            ok = actual == expected
            print("%s %s: read %r" % ("ok " if ok else "BAD", name, actual))
            violated = violated or not ok
        except errors.DataFormatError as error:
            print("BAD %s: %s" % (name, error))
            violated = True
sys.exit(1 if violated else 0)
