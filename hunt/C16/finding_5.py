"""C16 finding 5: strings that contain something looking like the OOXML escape '_xHHHH_' do not survive the
XlsxRowWriter -> excel_rows round trip."""
import os
import sys
import tempfile

from cutplace import rowio

path = os.path.join(tempfile.mkdtemp(prefix="c16_f5_"), "escapes.xlsx")
table = [
    ["_x0041_", "plain"],  # control: a single look-alike works
    ["_x005F_x0041_", "two overlapping look-alikes"],
    ["_x0041_x0041_", "two overlapping look-alikes"],
    ["_x0041\x1f", "look-alike prefix followed by a control character"],
    ["_x0041\r", "look-alike prefix followed by carriage return"],
]
with rowio.XlsxRowWriter(path) as writer:
    writer.write_rows(table)
actual = list(rowio.excel_rows(path))
violated = False
for written, read in zip(table, actual):
    ok = written == read
    violated = violated or not ok
    print("%s: wrote %s, read %s" % ("ok " if ok else "BAD", ascii(written[0]), ascii(read[0])))
if len(actual) != len(table):
    violated = True
    print("BAD: wrote %d rows, read %d" % (len(table), len(actual)))
sys.exit(1 if violated else 0)
