"""C16 finding 1: in a workbook using the 1904 date system, the date 1904-01-01 (with or without a
time of day) is rendered as a pure time instead of 'YYYY-MM-DD hh:mm:ss'."""
import datetime
import os
import sys
import tempfile

import xlsxwriter

from cutplace import interface, validio

path = os.path.join(tempfile.mkdtemp(prefix="c16_f1_"), "dates_1904.xlsx")
workbook = xlsxwriter.Workbook(path, {"date_1904": True})
worksheet = workbook.add_worksheet()
date_format = workbook.add_format({"num_format": "yyyy-mm-dd hh:mm:ss"})
values = [
    datetime.datetime(1904, 1, 1, 0, 0, 0),
    datetime.datetime(1904, 1, 1, 12, 30, 0),
    datetime.datetime(1904, 1, 2, 12, 30, 0),  # control: works
    datetime.datetime(2020, 2, 29, 1, 2, 3),  # control: works
]
for row_index, value in enumerate(values):
    worksheet.write_datetime(row_index, 0, value, date_format)
workbook.close()

cid = interface.Cid()
cid.read("inline", [["d", "format", "excel"], ["f", "some_date"]])
with validio.Reader(cid, path) as reader:
    actual = [row[0] for row in reader.rows()]
expected = [str(value) for value in values]
violated = False
for value, actual_text, expected_text in zip(values, actual, expected):
    ok = actual_text == expected_text
    violated = violated or not ok
    print("%s: date cell %r read as %r, expected %r" % ("ok " if ok else "BAD", value, actual_text, expected_text))
sys.exit(1 if violated else 0)
