"""C16 finding 2: a pure time cell in the last half second of the day (23:59:59.5 and later) makes the whole
workbook unreadable (1900 date system) or is rendered as a date (1904 date system) instead of 'hh:mm:ss'."""
import datetime
import os
import re
import sys
import tempfile

import xlsxwriter

from cutplace import errors, rowio

folder = tempfile.mkdtemp(prefix="c16_f2_")
violated = False
for date_1904 in (False, True):
    path = os.path.join(folder, "times_%s.xlsx" % date_1904)
    workbook = xlsxwriter.Workbook(path, {"date_1904": date_1904})
    worksheet = workbook.add_worksheet()
    time_format = workbook.add_format({"num_format": "hh:mm:ss"})
    worksheet.write_datetime(0, 0, datetime.time(23, 59, 59, 400000), time_format)  # control: '23:59:59'
    worksheet.write_datetime(1, 0, datetime.time(23, 59, 59, 600000), time_format)
    workbook.close()
    try:
        actual = [row[0] for row in rowio.excel_rows(path)]
        print("date_1904=%s: read %r" % (date_1904, actual))
        if not all(re.match(r"^\d\d:\d\d:\d\d$", item) for item in actual):
            print("  BAD: pure time not rendered as hh:mm:ss")
            violated = True
    except errors.DataFormatError as error:
        print("date_1904=%s: BAD: workbook with only valid time cells cannot be read: %s" % (date_1904, error))
        violated = True
sys.exit(1 if violated else 0)
