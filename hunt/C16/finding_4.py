"""C16 finding 4: XlsxRowWriter silently truncates strings longer than 32767 characters and silently drops
items beyond column 16384, so the table does not read back identically (and no error is reported)."""
import os
import sys
import tempfile

from cutplace import rowio

folder = tempfile.mkdtemp(prefix="c16_f4_")
violated = False


def round_trip(name, table):
    global violated
    path = os.path.join(folder, name + ".xlsx")
    try:
        with rowio.XlsxRowWriter(path) as writer:
            writer.write_rows(table)
    except Exception as error:
        print("%s: writer reported an error (fine): %s" % (name, error))
        return
    actual = list(rowio.excel_rows(path))
    if actual == table:
        print("%s: ok" % name)
    else:
        violated = True
        print(
            "%s: BAD: wrote %d row(s) with item lengths %r, read back %d row(s) with item lengths %r"
            % (name, len(table), [[len(i) for i in r][:3] for r in table], len(actual), [[len(i) for i in r][:3] for r in actual])
        )
        print("   row widths written %r, read %r" % ([len(r) for r in table], [len(r) for r in actual]))


round_trip("control_32767", [["x" * 32767, "y"]])
round_trip("long_string_32768", [["x" * 32768, "y"]])
round_trip("control_16384_columns", [["a"] * 16384])
round_trip("16385_columns", [["a"] * 16384 + ["LAST"]])
sys.exit(1 if violated else 0)
