"""C16 finding 3: a chart sheet in the workbook shifts the sheet numbering: 'Sheet 2' reads the third tab,
'Sheet 3' is rejected although the workbook has 3 sheets."""
import os
import sys
import tempfile

import xlsxwriter

from cutplace import errors, interface, validio

path = os.path.join(tempfile.mkdtemp(prefix="c16_f3_"), "with_chartsheet.xlsx")
workbook = xlsxwriter.Workbook(path)
first = workbook.add_worksheet("First")
chartsheet = workbook.add_chartsheet("Chart")
third = workbook.add_worksheet("Third")
first.write_string(0, 0, "first")
first.write_number(0, 1, 1)
third.write_string(0, 0, "third")
third.write_number(0, 1, 3)
chart = workbook.add_chart({"type": "column"})
chart.add_series({"values": "=First!$B$1:$B$1"})
chartsheet.set_chart(chart)
workbook.close()


def rows_for_sheet(sheet):
    cid = interface.Cid()
    cid.read("inline", [["d", "format", "excel"], ["d", "sheet", str(sheet)], ["f", "name"], ["f", "number"]])
    with validio.Reader(cid, path) as reader:
        return list(reader.rows())


print("tabs of the workbook in order: 1=First (worksheet), 2=Chart (chart sheet), 3=Third (worksheet)")
violated = False
try:
    rows = rows_for_sheet(3)
    print("Sheet=3 read: %r" % rows)
    violated = rows != [["third", "3"]]
except errors.DataFormatError as error:
    print("BAD: Sheet=3 (the worksheet 'Third') cannot be read: %s" % error)
    violated = True
try:
    rows = rows_for_sheet(2)
    print("Sheet=2 (a chart sheet without cells) read: %r" % rows)
    if rows == [["third", "3"]]:
        print("BAD: Sheet=2 delivered the data of the third sheet")
        violated = True
except errors.DataFormatError as error:
    print("Sheet=2: %s" % error)
sys.exit(1 if violated else 0)
