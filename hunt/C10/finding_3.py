"""
C10 finding 3: rule cells of a RegEx field that make re.compile() fail with something else than
re.error / OverflowError escape as ValueError or RecursionError (API) and exit code 4 (command line).

Run:  cd /tmp/wh_c10 && PYTHONPATH=/tmp/wh_c10 /venv/bin/python -W ignore /tmp/hunt_c10/finding_3.py
Exit code 1 = violation observed, 0 = not observed.
"""
import contextlib
import io
import logging
import os
import sys
import tempfile

from cutplace import applications, errors, interface

logging.basicConfig(level=logging.CRITICAL)
logging.disable(logging.CRITICAL)  # keep the tracebacks logged by main() out of the output

RULES = [
    ("contradicting inline flags", "(?a)(?u)x"),
    ("the same the other way round", "(?u)(?a)x"),
    ("500 nested groups", "(" * 500 + "x" + ")" * 500),
    # For comparison, these broken rules are reported properly:
    ("comparison: unbalanced parenthesis", "(x"),
    ("comparison: (?au)", "(?au)x"),
]

violations = 0
for description, rule in RULES:
    cid_text = "d,format,delimited\nf,a,,,,RegEx,%s\n" % rule
    shown_rule = rule if len(rule) < 30 else rule[:12] + "..." + rule[-12:]
    try:
        interface.create_cid_from_string(cid_text)
        print("%-36s %-30r -> CID accepted" % (description, shown_rule))
    except errors.CutplaceError as error:
        print("%-36s %-30r -> %s (fine)" % (description, shown_rule, type(error).__name__))
    except BaseException as error:  # noqa
        violations += 1
        print(
            "%-36s %-30r -> VIOLATION: %s: %s" % (description, shown_rule, type(error).__name__, str(error)[:60])
        )

tmp = tempfile.mkdtemp(prefix="c10_f3_")
cid_path = os.path.join(tmp, "cid.csv")
data_path = os.path.join(tmp, "data.csv")
with open(cid_path, "w", encoding="utf-8") as cid_file:
    cid_file.write("d,format,delimited\nf,a,,,,RegEx,(?a)(?u)x\n")
with open(data_path, "w", encoding="utf-8") as data_file:
    data_file.write("x\n")
with contextlib.redirect_stderr(io.StringIO()):
    exit_code = applications.main(["cutplace", cid_path, data_path])
print("command line: cutplace cid.csv data.csv -> exit code %d" % exit_code)
if exit_code == 4:
    violations += 1

if violations:
    print("VIOLATION: ValueError / RecursionError escape, exit code 4")
    sys.exit(1)
print("no violation observed")
sys.exit(0)
