"""
C10 finding 5: rule cells of a DistinctCount check escape as AssertionError (rule starting with a
line continuation) or as SystemExit (rule calling exit()), the latter letting the CID choose the exit
code of the command line, including 4.

Run:  cd /tmp/wh_c10 && PYTHONPATH=/tmp/wh_c10 /venv/bin/python -W ignore /tmp/hunt_c10/finding_5.py
Exit code 1 = violation observed, 0 = not observed.
"""
import contextlib
import io
import logging
import os
import sys
import tempfile

from cutplace import applications, errors, interface

logging.basicConfig(level=logging.CRITICAL)
logging.disable(logging.CRITICAL)  # keep the tracebacks logged by main() out of the output

# The rule cell is a multi line cell: backslash, line feed, "a < 3". In the CSV it has to be quoted.
RULES = [
    ("backslash + line feed before the field name", "\\\na < 3"),
    ("call of exit()", "a < exit(4)"),
    ("comparison: plain rule", "a < 3"),
    ("comparison: line feed without backslash", "\na < 3"),
    ("comparison: division by zero", "a < 1 / count"),
]


def cid_text_for(rule):
    return 'd,format,delimited\nf,a\nc,few distinct values,DistinctCount,"%s"\n' % rule.replace('"', '""')


violations = 0
for description, rule in RULES:
    try:
        interface.create_cid_from_string(cid_text_for(rule))
        print("%-46s %-16r -> CID accepted" % (description, rule))
    except errors.CutplaceError as error:
        print("%-46s %-16r -> %s (fine)" % (description, rule, type(error).__name__))
    except BaseException as error:  # noqa
        violations += 1
        print("%-46s %-16r -> VIOLATION: %s(%s) escapes" % (description, rule, type(error).__name__, error))

tmp = tempfile.mkdtemp(prefix="c10_f5_")
data_path = os.path.join(tmp, "data.csv")
with open(data_path, "w", encoding="utf-8") as data_file:
    data_file.write("1\n")
for name, rule in (("cid_continuation.csv", RULES[0][1]), ("cid_exit.csv", RULES[1][1])):
    cid_path = os.path.join(tmp, name)
    with open(cid_path, "w", encoding="utf-8", newline="") as cid_file:
        cid_file.write(cid_text_for(rule))
    try:
        with contextlib.redirect_stderr(io.StringIO()):
            exit_code = applications.main(["cutplace", cid_path, data_path])
        how = "main() returned"
    except SystemExit as error:
        exit_code = error.code
        how = "main() was left by SystemExit with code"
    print("command line: cutplace %s data.csv -> %s %r" % (name, how, exit_code))
    if exit_code == 4:
        violations += 1

if violations:
    print("VIOLATION: AssertionError / SystemExit escape, exit code 4")
    sys.exit(1)
print("no violation observed")
sys.exit(0)
