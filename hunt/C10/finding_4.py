"""
C10 finding 4: out-of-range repeat counts in an ODS container (data or CID) escape as OverflowError /
MemoryError (API) and exit code 4 (command line).

Run:  cd /tmp/wh_c10 && PYTHONPATH=/tmp/wh_c10 /venv/bin/python -W ignore /tmp/hunt_c10/finding_4.py
Exit code 1 = violation observed, 0 = not observed.
"""
import contextlib
import io
import logging
import os
import sys
import tempfile
import zipfile

from cutplace import applications, errors, interface, validio

logging.basicConfig(level=logging.CRITICAL)
logging.disable(logging.CRITICAL)  # keep the tracebacks logged by main() out of the output
tmp = tempfile.mkdtemp(prefix="c10_f4_")

_CONTENT_TEMPLATE = (
    '<?xml version="1.0" encoding="UTF-8"?>'
    '<office:document-content xmlns:office="urn:oasis:names:tc:opendocument:xmlns:office:1.0" '
    'xmlns:table="urn:oasis:names:tc:opendocument:xmlns:table:1.0" '
    'xmlns:text="urn:oasis:names:tc:opendocument:xmlns:text:1.0">'
    '<office:body><office:spreadsheet><table:table table:name="Sheet1">%s</table:table>'
    "</office:spreadsheet></office:body></office:document-content>"
)
_CELL = "<table:table-cell><text:p>%s</text:p></table:table-cell>"


def write_ods(name, table_xml):
    result = os.path.join(tmp, name)
    with zipfile.ZipFile(result, "w", zipfile.ZIP_DEFLATED) as ods_zip:
        ods_zip.writestr("mimetype", "application/vnd.oasis.opendocument.spreadsheet")
        ods_zip.writestr("content.xml", _CONTENT_TEMPLATE % table_xml)
    return result


BODIES = [
    (
        "valid (columns-repeated=1)",
        '<table:table-row><table:table-cell table:number-columns-repeated="1"><text:p>x</text:p></table:table-cell>'
        + _CELL % "y"
        + "</table:table-row>",
    ),
    (
        "columns-repeated=10**20",
        '<table:table-row><table:table-cell table:number-columns-repeated="100000000000000000000">'
        "<text:p>x</text:p></table:table-cell>" + _CELL % "y" + "</table:table-row>",
    ),
    (
        "columns-repeated=10**13",
        '<table:table-row><table:table-cell table:number-columns-repeated="10000000000000">'
        "<text:p>x</text:p></table:table-cell>" + _CELL % "y" + "</table:table-row>",
    ),
    (
        "text:s text:c=10**20",
        '<table:table-row><table:table-cell><text:p>x<text:s text:c="100000000000000000000"/></text:p>'
        "</table:table-cell>" + _CELL % "y" + "</table:table-row>",
    ),
    (
        "comparison: columns-repeated=abc",
        '<table:table-row><table:table-cell table:number-columns-repeated="abc"><text:p>x</text:p></table:table-cell>'
        + _CELL % "y"
        + "</table:table-row>",
    ),
]

cid = interface.create_cid_from_string("d,format,ods\nf,a\nf,b\n")
violations = 0
first_broken_path = None
for description, body in BODIES:
    ods_path = write_ods("data_%d.ods" % len(os.listdir(tmp)), body)
    try:
        validio.validate(cid, ods_path)
        print("data: %-34s -> ok" % description)
    except (errors.DataError, errors.InterfaceError) as error:
        print("data: %-34s -> %s (fine): %s" % (description, type(error).__name__, str(error)[:60]))
    except BaseException as error:  # noqa
        violations += 1
        if first_broken_path is None:
            first_broken_path = ods_path
        print("data: %-34s -> VIOLATION: %s: %s" % (description, type(error).__name__, str(error)[:60]))

# The same fault in a CID stored as ODS.
cid_rows = (
    "<table:table-row>" + _CELL % "d" + _CELL % "format" + _CELL % "delimited" + "</table:table-row>"
    "<table:table-row>" + _CELL % "f" + _CELL % "a"
    + '<table:table-cell table:number-columns-repeated="100000000000000000000"/></table:table-row>'
)
cid_ods_path = write_ods("cid.ods", cid_rows)
try:
    interface.Cid(cid_ods_path)
    print("CID : trailing empty cell repeated 10**20 times -> ok")
except errors.CutplaceError as error:
    print("CID : trailing empty cell repeated 10**20 times -> %s (fine)" % type(error).__name__)
except BaseException as error:  # noqa
    violations += 1
    print("CID : trailing empty cell repeated 10**20 times -> VIOLATION: %s: %s" % (type(error).__name__, error))

# Command line.
if first_broken_path is not None:
    cid_path = os.path.join(tmp, "cid.csv")
    with open(cid_path, "w", encoding="utf-8") as cid_file:
        cid_file.write("d,format,ods\nf,a\nf,b\n")
    with contextlib.redirect_stderr(io.StringIO()):
        exit_code = applications.main(["cutplace", cid_path, first_broken_path])
    print("command line: cutplace cid.csv data.ods -> exit code %d" % exit_code)
    if exit_code == 4:
        violations += 1

if violations:
    print("VIOLATION: OverflowError / MemoryError escape, exit code 4")
    sys.exit(1)
print("no violation observed")
sys.exit(0)
