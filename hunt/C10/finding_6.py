"""
C10 finding 6: a cell that is tokenized without being stripped (length, allowed characters, item
delimiter, IsUnique rule) and contains "blank, operator, line feed, NUL" escapes as SystemError,
because _tools.generated_tokens() only translates TokenError, SyntaxError and UnicodeError.
(Observed with CPython 3.12.1, where tokenize reports this input with a SystemError.)

Run:  cd /tmp/wh_c10 && PYTHONPATH=/tmp/wh_c10 /venv/bin/python -W ignore /tmp/hunt_c10/finding_6.py
Exit code 1 = violation observed, 0 = not observed.
"""
import contextlib
import io
import logging
import os
import sys
import tempfile

from cutplace import applications, errors, interface

logging.basicConfig(level=logging.CRITICAL)
logging.disable(logging.CRITICAL)  # keep the tracebacks logged by main() out of the output

HOSTILE = " /\n\x00"  # blank, slash, line feed, NUL; the Python 3.12 csv module reads NUL characters just fine

CIDS = [
    ("length cell", 'd,format,delimited\nf,a,,,"%s"\n' % HOSTILE),
    ("value of 'allowed characters'", 'd,format,delimited\nd,allowed characters,"%s"\nf,a\n' % HOSTILE),
    ("value of 'item delimiter'", 'd,format,delimited\nd,item delimiter,"%s"\nf,a\n' % HOSTILE),
    ("rule of IsUnique check", 'd,format,delimited\nf,a\nc,a is unique,IsUnique,"%s"\n' % HOSTILE),
    # For comparison: NUL alone, or the same text in a cell that is stripped first, is reported properly.
    ("comparison: length cell with NUL only", 'd,format,delimited\nf,a,,,"1\x002"\n'),
    ("comparison: rule cell of Choice (stripped)", 'd,format,delimited\nf,a,,,,Choice,"%s"\n' % HOSTILE),
]

violations = 0
for description, cid_text in CIDS:
    try:
        interface.create_cid_from_string(cid_text)
        print("%-44s -> CID accepted" % description)
    except errors.CutplaceError as error:
        print("%-44s -> %s (fine)" % (description, type(error).__name__))
    except BaseException as error:  # noqa
        violations += 1
        print("%-44s -> VIOLATION: %s: %s" % (description, type(error).__name__, str(error)[:70]))

tmp = tempfile.mkdtemp(prefix="c10_f6_")
cid_path = os.path.join(tmp, "cid.csv")
data_path = os.path.join(tmp, "data.csv")
with open(cid_path, "w", encoding="utf-8", newline="") as cid_file:
    cid_file.write(CIDS[0][1])
with open(data_path, "w", encoding="utf-8") as data_file:
    data_file.write("1\n")
with contextlib.redirect_stderr(io.StringIO()):
    exit_code = applications.main(["cutplace", cid_path, data_path])
print("command line: cutplace cid.csv data.csv -> exit code %d" % exit_code)
if exit_code == 4:
    violations += 1

if violations:
    print("VIOLATION: SystemError escapes, exit code 4")
    sys.exit(1)
print("no violation observed")
sys.exit(0)
