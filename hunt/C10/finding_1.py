"""
C10 finding 1: a single flipped bit in an .xlsx container (data or CID) escapes as OSError.

Run:  cd /tmp/wh_c10 && PYTHONPATH=/tmp/wh_c10 /venv/bin/python -W ignore /tmp/hunt_c10/finding_1.py
Exit code 1 = violation observed, 0 = not observed.
"""
import os
import sys
import tempfile

import xlsxwriter

from cutplace import errors, interface, validio

tmp = tempfile.mkdtemp(prefix="c10_f1_")


def write_xlsx(path, rows):
    workbook = xlsxwriter.Workbook(path)
    worksheet = workbook.add_worksheet()
    for y, row in enumerate(rows):
        for x, item in enumerate(row):
            worksheet.write_string(y, x, item)
    workbook.close()


def flipped(source_path, target_path):
    """Copy of source_path with ONE bit flipped: the top bit of the zip's 'offset of central directory'."""
    blob = bytearray(open(source_path, "rb").read())
    eocd = blob.rfind(b"PK\x05\x06")  # end of central directory record
    assert eocd >= 0
    offset_of_flipped_byte = eocd + 19  # most significant byte of the 4 byte field at eocd + 16
    blob[offset_of_flipped_byte] ^= 0x80
    with open(target_path, "wb") as target:
        target.write(blob)
    return offset_of_flipped_byte


def outcome(function):
    try:
        function()
        return "ok", None
    except (errors.InterfaceError, errors.DataError) as error:
        return "cutplace error", error
    except BaseException as error:  # noqa
        return "VIOLATION", error


violations = 0

# 1. Excel data.
data_path = os.path.join(tmp, "data.xlsx")
write_xlsx(data_path, [["1", "x"], ["2", "y"]])
cid = interface.create_cid_from_string("d,format,excel\nf,a,,,,Integer\nf,b\n")
kind, error = outcome(lambda: validio.validate(cid, data_path))
print("intact data.xlsx           -> %s %r" % (kind, error))
broken_data_path = os.path.join(tmp, "data_flipped.xlsx")
offset = flipped(data_path, broken_data_path)
kind, error = outcome(lambda: validio.validate(cid, broken_data_path))
print("data.xlsx, bit 7 of byte %d flipped -> %s: %s: %s" % (offset, kind, type(error).__name__, error))
if kind == "VIOLATION":
    violations += 1

# 2. The same container fault in a CID stored as .xlsx.
cid_path = os.path.join(tmp, "cid.xlsx")
write_xlsx(cid_path, [["d", "format", "delimited"], ["f", "a"]])
kind, error = outcome(lambda: interface.Cid(cid_path))
print("intact cid.xlsx            -> %s %r" % (kind, error))
broken_cid_path = os.path.join(tmp, "cid_flipped.xlsx")
offset = flipped(cid_path, broken_cid_path)
kind, error = outcome(lambda: interface.Cid(broken_cid_path))
print("cid.xlsx, bit 7 of byte %d flipped  -> %s: %s: %s" % (offset, kind, type(error).__name__, error))
if kind == "VIOLATION":
    violations += 1

if violations:
    print("VIOLATION: a corrupted container escapes the API as OSError instead of a DataError/InterfaceError")
    sys.exit(1)
print("no violation observed")
sys.exit(0)
