"""
C10 finding 2: an out-of-range number in the length cell of an Integer field escapes as MemoryError
(API) and is answered with exit code 4 (command line).

Run:  cd /tmp/wh_c10 && PYTHONPATH=/tmp/wh_c10 /venv/bin/python -W ignore /tmp/hunt_c10/finding_2.py
Exit code 1 = violation observed, 0 = not observed.
"""
import contextlib
import io
import logging
import os
import sys
import tempfile

from cutplace import applications, errors, interface

logging.basicConfig(level=logging.CRITICAL)
logging.disable(logging.CRITICAL)  # keep the tracebacks logged by main() out of the output

# 10**15 - 1 characters can never be allocated, so the outcome does not depend on the RAM of the machine.
# (Smaller values such as 2147483648 do not fail but keep the process busy for minutes with a 2 GB range text.)
LENGTHS = ["999999999999999", "1...999999999999999", "999999999999999...", "9223372036854775807"]

violations = 0
for data_format, length in [("delimited", length) for length in LENGTHS] + [("fixed", "999999999999999")]:
    cid_text = "d,format,%s\nf,a,,,%s,Integer\n" % (data_format, length)
    try:
        interface.create_cid_from_string(cid_text)
        print("%-9s length %-22r -> CID accepted" % (data_format, length))
    except errors.InterfaceError as error:
        print("%-9s length %-22r -> InterfaceError (fine): %s" % (data_format, length, str(error)[:70]))
    except errors.DataError as error:
        print("%-9s length %-22r -> DataError (fine): %s" % (data_format, length, str(error)[:70]))
    except BaseException as error:  # noqa
        violations += 1
        print("%-9s length %-22r -> VIOLATION: %s escapes Cid()" % (data_format, length, type(error).__name__))

# For comparison: the slightly bigger number is refused properly.
try:
    interface.create_cid_from_string("d,format,delimited\nf,a,,,99999999999999999999,Integer\n")
except errors.InterfaceError as error:
    print("for comparison length '99999999999999999999' -> InterfaceError: %s" % str(error)[:90])

# Command line.
tmp = tempfile.mkdtemp(prefix="c10_f2_")
cid_path = os.path.join(tmp, "cid.csv")
data_path = os.path.join(tmp, "data.csv")
with open(cid_path, "w", encoding="utf-8") as cid_file:
    cid_file.write("d,format,delimited\nf,a,,,999999999999999,Integer\n")
with open(data_path, "w", encoding="utf-8") as data_file:
    data_file.write("1\n")
with contextlib.redirect_stderr(io.StringIO()):
    exit_code = applications.main(["cutplace", cid_path, data_path])
print("command line: cutplace cid.csv data.csv -> exit code %d" % exit_code)
if exit_code == 4:
    violations += 1

if violations:
    print("VIOLATION: MemoryError escapes / exit code 4")
    sys.exit(1)
print("no violation observed")
sys.exit(0)
