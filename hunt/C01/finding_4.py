"""
C01 finding 4: well-formed integer limits with more than 4300 decimal digits
(or a 0x-hex limit of that magnitude) are rejected by Range, while DecimalRange
accepts the same text.

Run: cd /tmp/wh_c01 && PYTHONPATH=/tmp/wh_c01 /venv/bin/python -W ignore /tmp/hunt_c01/finding_4.py
Exits 1 if the violation occurs, 0 otherwise.
"""
import sys

from cutplace import errors, ranges

violations = 0
for label, description in (
    ("4300 nines", "9" * 4300),  # control: accepted
    ("4301 nines", "9" * 4301),
    ("1...<1 and 4300 zeros>", "1..." + "1" + "0" * 4300),
    ("-<5000 nines>...", "-" + "9" * 5000 + "..."),
    ("0x<3571 f>", "0x" + "f" * 3571),  # control: accepted (4300 decimal digits)
    ("0x<3572 f>", "0x" + "f" * 3572),
):
    try:
        actual = ranges.Range(description)
        print("Range(%s): accepted, %d item(s)" % (label, len(actual.items)))
    except errors.InterfaceError as error:
        print("Range(%s): REJECTED: %s..." % (label, str(error)[:90]))
        violations += 1
    if not description.startswith("0x"):
        decimal_range = ranges.DecimalRange(description)
        print("DecimalRange(%s): accepted, %d item(s)" % (label, len(decimal_range.items)))
print("violations: %d" % violations)
sys.exit(1 if violations else 0)
