"""
C01 finding 3: the quoted single characters NUL (U+0000) and line feed (U+000A)
written literally between quotes are rejected, although every other literal
character (including tab, vertical tab, form feed, carriage return, U+0085,
U+2028, all non ASCII and astral characters) is accepted.

Run: cd /tmp/wh_c01 && PYTHONPATH=/tmp/wh_c01 /venv/bin/python -W ignore /tmp/hunt_c01/finding_3.py
Exits 1 if the violation occurs, 0 otherwise.
"""
import sys

from cutplace import errors, ranges

violations = 0
# All control characters, the other line separators and a few samples; the full
# sweep over all 0x110000 code points gives the same result (only 0 and 10 fail,
# apart from the backslash which the documentation asks to write as "\\").
codes = list(range(0, 32)) + [0x7F, 0x85, 0x2028, 0x2029, 0xDC, 0x20AC, 0x1F600]
for code in codes:
    description = '"%s"' % chr(code)
    try:
        actual = ranges.Range(description)
        ok = actual.items == [(code, code)]
        if not ok:
            print("Range(%r): WRONG items %r" % (description, actual.items))
            violations += 1
    except errors.InterfaceError as error:
        print("Range(%r): REJECTED: %s" % (description, error))
        violations += 1
for description, expected in (('"\x00"...\'\x1f\'', [(0, 31)]), ("tab, '\n', cr", [(9, 9), (10, 10), (13, 13)])):
    try:
        actual = ranges.Range(description)
        print("Range(%r): accepted, items=%r" % (description, actual.items))
        if actual.items != expected:
            violations += 1
    except errors.InterfaceError as error:
        print("Range(%r): REJECTED: %s" % (description, error))
        violations += 1
print("violations: %d" % violations)
sys.exit(1 if violations else 0)
