"""
C01 finding 2: the documented spelling u"Ü" for a quoted character is rejected.

docs/writing-an-icd.rst, section "Ranges", table "Example escaped text":
    u"Ü"   220 (the Unicode character 220, also known as "Umlaut U")

Run: cd /tmp/wh_c01 && PYTHONPATH=/tmp/wh_c01 /venv/bin/python -W ignore /tmp/hunt_c01/finding_2.py
Exits 1 if the violation occurs, 0 otherwise.
"""
import sys

from cutplace import errors, ranges

CASES = [
    ('u"\\u00dc"', 220),  # verbatim from the documentation
    ('u"Ü"', 220),
    ("u'A'...u'Z'", None),
    ('"\\u00dc"', 220),  # control: without prefix it works
]
violations = 0
for description, expected_code in CASES:
    try:
        actual = ranges.Range(description)
        print("Range(%r): accepted, items=%r" % (description, actual.items))
        if expected_code is not None and actual.items != [(expected_code, expected_code)]:
            violations += 1
    except errors.InterfaceError as error:
        print("Range(%r): REJECTED: %s" % (description, error))
        violations += 1
print("violations: %d" % violations)
sys.exit(1 if violations else 0)
