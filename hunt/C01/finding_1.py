"""
C01 finding 1: integer limits written with leading zeros are rejected by Range.

Run: cd /tmp/wh_c01 && PYTHONPATH=/tmp/wh_c01 /venv/bin/python -W ignore /tmp/hunt_c01/finding_1.py
Exits 1 if the violation occurs, 0 otherwise.
"""
import sys

import cutplace
from cutplace import errors, ranges

# description -> items it describes
CASES = [
    ("01...12", [(1, 12)]),
    ("007", [(7, 7)]),
    ("-08...08", [(-8, 8)]),
    ("1:010", [(1, 10)]),
    ("...09", [(None, 9)]),
    ("00...5", [(0, 5)]),  # control: a zero written 00 is accepted
    ("0x01...0x0c", [(1, 12)]),  # control: leading zeros after 0x are accepted
]

violations = 0
for description, expected_items in CASES:
    try:
        actual = ranges.Range(description)
    except errors.InterfaceError as error:
        print("Range(%r): REJECTED: %s" % (description, error))
        violations += 1
        continue
    print("Range(%r): accepted, items=%r" % (description, actual.items))
    if actual.items != expected_items:
        violations += 1

# The same texts are fine as decimal range, so the spelling as such is understood.
for description, _ in CASES[:5]:
    print("DecimalRange(%r): items=%r" % (description, ranges.DecimalRange(description).items))

# End to end: an Integer field for a month written the way months are written in data.
for field_type in ("Integer", "Decimal"):
    cid = cutplace.Cid()
    try:
        cid.read("inline", [["D", "Format", "Delimited"], ["F", "month", "", "", "", field_type, "01...12"]])
        print("CID with %s rule '01...12': accepted" % field_type)
    except errors.InterfaceError as error:
        print("CID with %s rule '01...12': REJECTED: %s" % (field_type, error))
        if field_type == "Integer":
            violations += 1

print("violations: %d" % violations)
sys.exit(1 if violations else 0)
