"""
C03 finding 1: in Excel and ODS data an empty cell of a field that is allowed to be empty is rejected
when it sits after the last filled cell (Excel: of the whole sheet, ODS: of its row).

Run:  cd /tmp/wh_c03 && PYTHONPATH=/tmp/wh_c03 /venv/bin/python -W ignore /tmp/hunt_c03/finding_1.py
"""
import io
import os
import sys
import tempfile
import zipfile

import xlsxwriter

import cutplace
import cutplace.errors

CID_TEMPLATE = "d,format,%s\nf,name,,,,Text\nf,size,,,,Integer\nf,note,,x,,Text\n"  # "note" may be empty


def outcome(cid, data_path):
    result = []
    with cutplace.Reader(cid, data_path, on_error="yield") as reader:
        for row_or_error in reader.rows():
            if isinstance(row_or_error, Exception):
                result.append("REJECTED: %s" % row_or_error)
            else:
                result.append("accepted: %r" % (row_or_error,))
    return result


def write_xlsx(path, rows):
    workbook = xlsxwriter.Workbook(path)
    worksheet = workbook.add_worksheet()
    for y, row in enumerate(rows):
        for x, value in enumerate(row):
            worksheet.write(y, x, value)
    workbook.close()


def write_ods(path, rows):
    rows_xml = ""
    for row in rows:
        rows_xml += "<table:table-row>"
        for value in row:
            rows_xml += (
                '<table:table-cell office:value-type="string"><text:p>%s</text:p></table:table-cell>' % value
            )
        rows_xml += "</table:table-row>"
    content = (
        '<?xml version="1.0" encoding="UTF-8"?>'
        '<office:document-content xmlns:office="urn:oasis:names:tc:opendocument:xmlns:office:1.0" '
        'xmlns:table="urn:oasis:names:tc:opendocument:xmlns:table:1.0" '
        'xmlns:text="urn:oasis:names:tc:opendocument:xmlns:text:1.0" office:version="1.2">'
        '<office:body><office:spreadsheet><table:table table:name="Sheet1">%s</table:table>'
        "</office:spreadsheet></office:body></office:document-content>" % rows_xml
    )
    with zipfile.ZipFile(path, "w") as ods_zip:
        ods_zip.writestr("mimetype", "application/vnd.oasis.opendocument.spreadsheet")
        ods_zip.writestr("content.xml", content)


violations = 0
folder = tempfile.mkdtemp(prefix="hunt_c03_f1_")

# Excel: column C ("note", allowed to be empty) is empty in every row.
excel_cid = cutplace.Cid(io.StringIO(CID_TEMPLATE % "excel"))
all_empty_path = os.path.join(folder, "note_always_empty.xlsx")
write_xlsx(all_empty_path, [["bolt", 1], ["nut", 2]])
print("excel, cells C1 and C2 empty:")
for line in outcome(excel_cid, all_empty_path):
    print("  " + line)
    violations += line.startswith("REJECTED")
# Same sheet, except that C2 is filled: now the very same empty C1 is accepted.
one_filled_path = os.path.join(folder, "note_once_filled.xlsx")
write_xlsx(one_filled_path, [["bolt", 1], ["nut", 2, "metric"]])
print("excel, cell C1 empty, C2 filled:")
for line in outcome(excel_cid, one_filled_path):
    print("  " + line)

# ODS: a row that ends after its last filled cell (trailing empty cells need not be stored).
ods_cid = cutplace.Cid(io.StringIO(CID_TEMPLATE % "ods"))
ods_path = os.path.join(folder, "short_row.ods")
write_ods(ods_path, [["bolt", "1"], ["nut", "2", "metric"]])
print("ods, cell C1 empty (not stored), C2 filled:")
for line in outcome(ods_cid, ods_path):
    print("  " + line)
    violations += line.startswith("REJECTED")

if violations:
    print("VIOLATION: %d row(s) rejected only because of an empty cell in a field that is allowed to be empty" % violations)
    sys.exit(1)
print("no violation")
sys.exit(0)
