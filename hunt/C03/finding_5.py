"""
C03 finding 5: fixed-width data: cells that do not consist of blanks but of other characters that
str.strip() removes (tab, line feed, no-break space U+00A0, ideographic space U+3000, file separator
U+001C, ...) are taken for empty cells: they yield the empty value without the type and rule being consulted.

Run:  cd /tmp/wh_c03 && PYTHONPATH=/tmp/wh_c03 /venv/bin/python -W ignore /tmp/hunt_c03/finding_5.py
"""
import io
import sys

import cutplace
import cutplace.errors

violations = 0
NOT_BLANK_CELLS = ["\t\t\t", "\xa0\xa0\xa0", "\u3000\u3000\u3000", "\x1c\x1d\x1e", "\x0b\x0c\x85", " \t "]

# None of these types and rules could accept a cell made of tabs or no-break spaces.
CID_TEXT = "d,format,fixed\nd,line delimiter,lf\nf,size,,x,3,%s,%s\n"
for field_type, rule in (("Integer", "0...999"), ("DateTime", "hh"), ("Choice", "abc"), ("RegEx", "[0-9]+")):
    cid = cutplace.Cid(io.StringIO(CID_TEXT % (field_type, rule)))
    field_format = cid.field_formats[0]
    for cell in NOT_BLANK_CELLS:
        assert cell.strip(" ") != "", "cell must not consist only of blanks"
        try:
            value = field_format.validated(cell)
            print("%-8s %-22r accepted as empty -> %r" % (field_type, cell, value))
            violations += 1
        except cutplace.errors.FieldValueError as error:
            print("%-8s %-22r rejected: %s" % (field_type, cell, error))

# The same using a reader on data; "\xa0" is what for example a cp1252 file contains for a no-break space.
cid = cutplace.Cid(io.StringIO(CID_TEXT % ("Integer", "0...999")))
with cutplace.Reader(cid, io.StringIO("123\n\xa0\xa0\xa0\n\t\t\t\n"), on_error="yield") as reader:
    for row_or_error in reader.rows():
        if isinstance(row_or_error, Exception):
            print("Reader rejected: %s" % row_or_error)
        else:
            print("Reader accepted: %r" % (row_or_error,))
            if row_or_error != ["123"]:
                violations += 1

# The other way round: the field must not be empty, and the non empty cell is reported to be empty.
cid = cutplace.Cid(io.StringIO("d,format,fixed\nf,name,,,3,Text\n"))
try:
    cid.field_formats[0].validated("\xa0\xa0\xa0")
    print("Text (must not be empty) accepted '\\xa0\\xa0\\xa0'")
except cutplace.errors.FieldValueError as error:
    print("Text (must not be empty) rejected '\\xa0\\xa0\\xa0': %s" % error)

if violations:
    print("VIOLATION: %d non-blank cell(s) have been accepted as empty cells" % violations)
    sys.exit(1)
print("no violation")
sys.exit(0)
