"""
C03 finding 2: fixed-width data with an "allowed characters" range that does not include the blank:
a cell consisting only of blanks is rejected although the field is allowed to be empty (Reader and Writer).

Run:  cd /tmp/wh_c03 && PYTHONPATH=/tmp/wh_c03 /venv/bin/python -W ignore /tmp/hunt_c03/finding_2.py
"""
import io
import sys

import cutplace
import cutplace.errors

CID_TEXT = (
    "d,format,fixed\n"
    'd,allowed characters,"""a""...""z"", ""0""...""9"""\n'
    "f,code,,x,3,Text\n"  # allowed to be empty
    "f,size,,x,2,Integer\n"  # allowed to be empty
)

violations = 0
cid = cutplace.Cid(io.StringIO(CID_TEXT))
print("allowed characters: %s" % cid.data_format.allowed_characters)

# 1. Reader: second row has a blank "code", third row a blank "size".
with cutplace.Reader(cid, io.StringIO("abc12\n   12\nabc  \n"), on_error="yield") as reader:
    for row_or_error in reader.rows():
        if isinstance(row_or_error, Exception):
            print("Reader REJECTED: %s" % row_or_error)
            violations += 1
        else:
            print("Reader accepted: %r" % (row_or_error,))

# 2. The field format itself.
for field_format in cid.field_formats:
    blank_cell = " " * int(field_format.length.lower_limit)
    try:
        value = field_format.validated(blank_cell)
        print("%s.validated(%r) -> %r" % (field_format.field_name, blank_cell, value))
    except cutplace.errors.FieldValueError as error:
        print("%s.validated(%r) REJECTED: %s" % (field_format.field_name, blank_cell, error))
        violations += 1

# 3. Writer: an empty value for a field that is allowed to be empty cannot be written.
with io.StringIO() as target:
    writer = cutplace.Writer(cid, target)
    for row in (["abc", "12"], ["", "12"], ["abc", ""]):
        try:
            writer.write_row(row)
            print("Writer accepted: %r" % (row,))
        except cutplace.errors.DataError as error:
            print("Writer REJECTED %r: %s" % (row, error))
            violations += 1
    writer.close()

if violations:
    print("VIOLATION: %d blank cell(s) of fields allowed to be empty have been rejected" % violations)
    sys.exit(1)
print("no violation")
sys.exit(0)
