"""
C03 finding 3: ODS rows stored inside <table:table-row-group> (grouped / outlined rows) or
<table:table-header-rows> (rows to repeat when printing) are never validated, so cells with a broken
length or with characters outside "allowed characters" are not rejected.

Run:  cd /tmp/wh_c03 && PYTHONPATH=/tmp/wh_c03 /venv/bin/python -W ignore /tmp/hunt_c03/finding_3.py
"""
import io
import os
import sys
import tempfile
import zipfile

import cutplace

CID_TEXT = (
    "d,format,ods\n"
    'd,allowed characters,"""a""...""z"""\n'
    "f,code,,,1...3,Text\n"  # 1 to 3 lower case letters, must not be empty
)


def row_xml(value):
    cell = "<table:table-cell/>" if value is None else (
        '<table:table-cell office:value-type="string"><text:p>%s</text:p></table:table-cell>' % value
    )
    return "<table:table-row>" + cell + "</table:table-row>"


def write_ods(path, rows_xml):
    content = (
        '<?xml version="1.0" encoding="UTF-8"?>'
        '<office:document-content xmlns:office="urn:oasis:names:tc:opendocument:xmlns:office:1.0" '
        'xmlns:table="urn:oasis:names:tc:opendocument:xmlns:table:1.0" '
        'xmlns:text="urn:oasis:names:tc:opendocument:xmlns:text:1.0" office:version="1.2">'
        '<office:body><office:spreadsheet><table:table table:name="Sheet1">%s</table:table>'
        "</office:spreadsheet></office:body></office:document-content>" % rows_xml
    )
    with zipfile.ZipFile(path, "w") as ods_zip:
        ods_zip.writestr("mimetype", "application/vnd.oasis.opendocument.spreadsheet")
        ods_zip.writestr("content.xml", content)


def outcome(data_path):
    cid = cutplace.Cid(io.StringIO(CID_TEXT))
    accepted = []
    rejected = []
    with cutplace.Reader(cid, data_path, on_error="yield") as reader:
        for row_or_error in reader.rows():
            (rejected if isinstance(row_or_error, Exception) else accepted).append(row_or_error)
    return accepted, rejected


BROKEN_VALUES = ["toolong", "A1", None]  # too long, characters not allowed, empty
broken_rows_xml = "".join(row_xml(value) for value in BROKEN_VALUES)
folder = tempfile.mkdtemp(prefix="hunt_c03_f3_")
violations = 0

plain_path = os.path.join(folder, "plain.ods")
write_ods(plain_path, row_xml("abc") + broken_rows_xml + row_xml("xyz"))
accepted, rejected = outcome(plain_path)
print("plain rows:   accepted=%r, rejected=%d" % (accepted, len(rejected)))
assert len(rejected) == len(BROKEN_VALUES), "the broken rows must be rejected when stored as plain rows"

for wrapper in ("table:table-row-group", "table:table-header-rows"):
    wrapped_path = os.path.join(folder, wrapper.replace(":", "_") + ".ods")
    write_ods(wrapped_path, row_xml("abc") + "<%s>%s</%s>" % (wrapper, broken_rows_xml, wrapper) + row_xml("xyz"))
    accepted, rejected = outcome(wrapped_path)
    print("%s: accepted=%r, rejected=%d" % (wrapper, accepted, len(rejected)))
    if len(rejected) != len(BROKEN_VALUES):
        violations += len(BROKEN_VALUES) - len(rejected)

if violations:
    print("VIOLATION: %d broken cell(s) passed the validation without being rejected" % violations)
    sys.exit(1)
print("no violation")
sys.exit(0)
