"""
C03 finding 4: delimited data with a single field that is allowed to be empty: the empty cell written
as an empty line is rejected.

Run:  cd /tmp/wh_c03 && PYTHONPATH=/tmp/wh_c03 /venv/bin/python -W ignore /tmp/hunt_c03/finding_4.py
"""
import io
import sys

import cutplace

violations = 0
for field_type in ("Text", "Integer", "Decimal", "Choice", "RegEx", "Pattern", "DateTime"):
    rule = {"Choice": "2001,2002", "DateTime": "YYYY", "RegEx": ".*", "Pattern": "*"}.get(field_type, "")
    cid = cutplace.Cid(io.StringIO('d,format,delimited\nf,some,,x,,%s,"%s"\n' % (field_type, rule)))
    # Three rows, the cell of the second one is empty.
    with cutplace.Reader(cid, io.StringIO("2001\n\n2002\n"), on_error="yield") as reader:
        for row_or_error in reader.rows():
            if isinstance(row_or_error, Exception):
                print("%-8s REJECTED: %s" % (field_type, row_or_error))
                violations += 1
            else:
                print("%-8s accepted: %r" % (field_type, row_or_error))

if violations:
    print("VIOLATION: %d empty cell(s) of a field allowed to be empty have been rejected" % violations)
    sys.exit(1)
print("no violation")
sys.exit(0)
