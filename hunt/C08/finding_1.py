"""
C08 finding 1: copying a clean data set with a Reader and a Writer that share one CID
fails with a spurious "must be unique" error (uniqueness bookkeeping of the read data set
carries over to the written data set and vice versa).

Run: cd /tmp/wh_c08 && PYTHONPATH=/tmp/wh_c08 /venv/bin/python -W ignore /tmp/hunt_c08/finding_1.py
"""
import io
import sys

from cutplace import errors, interface, validio

CID_TEXT = """d,format,delimited
f,id,,,,Integer
f,name
c,id must be unique,IsUnique,id
"""
SOURCE = "1,a\n2,b\n3,c\n"  # clean: every id occurs once


def copy_rows(reader_cid, writer_cid):
    target = io.StringIO()
    try:
        with validio.Writer(writer_cid, target) as writer:
            for row in validio.rows(reader_cid, io.StringIO(SOURCE)):
                writer.write_row(row)
            return "ok: wrote %r" % target.getvalue()
    except errors.CutplaceError as error:
        return "%s: %s" % (type(error).__name__, error)


shared_cid = interface.create_cid_from_string(CID_TEXT)
shared_outcome = copy_rows(shared_cid, shared_cid)
fresh_outcome = copy_rows(interface.create_cid_from_string(CID_TEXT), interface.create_cid_from_string(CID_TEXT))

# The same happens with the object API and the reader created first.
shared_cid = interface.create_cid_from_string(CID_TEXT)
reader = validio.Reader(shared_cid, io.StringIO(SOURCE))
writer = validio.Writer(shared_cid, io.StringIO())
try:
    for row in reader.rows():
        writer.write_row(row)
    reader.close()
    writer.close()
    object_api_outcome = "ok"
except errors.CutplaceError as error:
    object_api_outcome = "%s: %s" % (type(error).__name__, error)

print("one CID for Reader and Writer (validio.rows):", shared_outcome)
print("one CID for Reader and Writer (Reader/Writer):", object_api_outcome)
print("fresh CID for each run                       :", fresh_outcome)

is_violation = fresh_outcome.startswith("ok") and not (
    shared_outcome.startswith("ok") and object_api_outcome.startswith("ok")
)
print("VIOLATION" if is_violation else "no violation")
sys.exit(1 if is_violation else 0)
