"""
C08 finding 2: two clean data sets read side by side (e.g. to compare them row by row) with
one CID reject each other's keys as duplicates. The rejection even points to the *other*
file as "location of first occurrence".

Run: cd /tmp/wh_c08 && PYTHONPATH=/tmp/wh_c08 /venv/bin/python -W ignore /tmp/hunt_c08/finding_2.py
"""
import io
import sys

from cutplace import errors, interface, validio

CID_TEXT = """d,format,delimited
f,id,,,,Integer
f,name
c,id must be unique,IsUnique,id
"""
OLD = "1,a\n2,b\n3,c\n"  # clean
NEW = "1,a\n2,B\n3,c\n"  # clean, shares the key values with OLD


class Named(io.StringIO):
    def __init__(self, text, name):
        super().__init__(text)
        self.name = name


def compare(old_cid, new_cid, on_error):
    result = []
    old_rows = validio.rows(old_cid, Named(OLD, "old.csv"), on_error=on_error)
    new_rows = validio.rows(new_cid, Named(NEW, "new.csv"), on_error=on_error)
    try:
        for old_row, new_row in zip(old_rows, new_rows):
            result.append((str(old_row), str(new_row)))
    except errors.CutplaceError as error:
        result.append("%s: %s" % (type(error).__name__, error))
    return result


def fresh_cid():
    return interface.create_cid_from_string(CID_TEXT)


is_violation = False
for on_error in ("raise", "yield"):
    shared_cid = fresh_cid()
    shared_outcome = compare(shared_cid, shared_cid, on_error)
    fresh_outcome = compare(fresh_cid(), fresh_cid(), on_error)
    print("on_error=%r" % on_error)
    print("  one CID for both reads:")
    for item in shared_outcome:
        print("    ", item)
    print("  fresh CID for each read:")
    for item in fresh_outcome:
        print("    ", item)
    if shared_outcome != fresh_outcome:
        is_violation = True

print("VIOLATION" if is_violation else "no violation")
sys.exit(1 if is_violation else 0)
