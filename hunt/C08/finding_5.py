"""
C08 finding 5: two Writers open on one CID (e.g. to split data into two files of the same
layout) pool their uniqueness and distinct-count bookkeeping: a key used in one output is rejected
in the other one and the end-of-data check of each output counts the values of both.

Run: cd /tmp/wh_c08 && PYTHONPATH=/tmp/wh_c08 /venv/bin/python -W ignore /tmp/hunt_c08/finding_5.py
"""
import io
import sys

from cutplace import errors, interface, validio

CID_TEXT = """d,format,fixed
d,line delimiter,lf
f,position,,,2,Integer
f,branch,,,5
c,position must be unique,IsUnique,position
c,at most 2 distinct branches,DistinctCount,branch <= 2
"""
# (target, row); within each target positions are unique and there are only 2 branches.
ROWS = [
    ("a", ["1", "north"]),
    ("b", ["1", "east"]),
    ("a", ["2", "south"]),
    ("b", ["3", "west"]),
    ("b", ["4", "east"]),
]


def fresh_cid():
    return interface.create_cid_from_string(CID_TEXT)


def split(cid_a, cid_b):
    result = []
    targets = {"a": io.StringIO(), "b": io.StringIO()}
    writers = {"a": validio.Writer(cid_a, targets["a"]), "b": validio.Writer(cid_b, targets["b"])}
    for target_name, row in ROWS:
        try:
            writers[target_name].write_row(row)
            result.append("%s: wrote %s" % (target_name, row))
        except errors.CutplaceError as error:
            result.append("%s: rejected %s: %s" % (target_name, row, error))
    for target_name in ("a", "b"):
        written = targets[target_name].getvalue()
        try:
            writers[target_name].close()
            result.append("%s: end-of-data checks ok; written: %r" % (target_name, written))
        except errors.CutplaceError as error:
            result.append("%s: end-of-data checks: %s; written: %r" % (target_name, error, written))
    return result


shared_cid = fresh_cid()
shared_outcome = split(shared_cid, shared_cid)
fresh_outcome = split(fresh_cid(), fresh_cid())
print("one CID for both writers:")
for item in shared_outcome:
    print("  ", item)
print("fresh CID for each writer:")
for item in fresh_outcome:
    print("  ", item)

is_violation = shared_outcome != fresh_outcome
print("VIOLATION" if is_violation else "no violation")
sys.exit(1 if is_violation else 0)
