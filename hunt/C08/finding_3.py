"""
C08 finding 3: starting any other run with the same CID while a run is in progress wipes the
bookkeeping of the run in progress (BaseValidator.__init__ and Reader.rows() reset every check of
the CID), so duplicates are silently accepted.

(a) Reader: a file with a duplicate key is accepted in full if another file is validated with the
    same CID between the two occurrences.
(b) Writer: a duplicate key is written without complaint under the same circumstances; the file
    just written is rejected when read back.

Run: cd /tmp/wh_c08 && PYTHONPATH=/tmp/wh_c08 /venv/bin/python -W ignore /tmp/hunt_c08/finding_3.py
"""
import io
import sys

from cutplace import errors, interface, validio

CID_TEXT = """d,format,delimited
f,id,,,,Integer
f,name
c,id must be unique,IsUnique,id
c,at most 2 distinct names,DistinctCount,name <= 2
"""
WITH_DUPLICATE = "1,a\n2,b\n1,c\n"  # id 1 twice, 3 distinct names
OTHER = "7,x\n"  # clean


def fresh_cid():
    return interface.create_cid_from_string(CID_TEXT)


def read_with_duplicate(cid, other_cid):
    """Read WITH_DUPLICATE using ``cid``; after 2 rows, validate OTHER using ``other_cid``."""
    result = []
    try:
        with validio.Reader(cid, io.StringIO(WITH_DUPLICATE), on_error="yield") as reader:
            for row_number, row_or_error in enumerate(reader.rows(), 1):
                result.append(str(row_or_error))
                if row_number == 2:
                    validio.validate(other_cid, io.StringIO(OTHER))
            result.append("accepted=%d, rejected=%d" % (reader.accepted_rows_count, reader.rejected_rows_count))
        result.append("end-of-data checks: ok")
    except errors.CutplaceError as error:
        result.append("end-of-data checks: %s" % error)
    return result


def write_with_duplicate(cid, other_cid):
    result = []
    target = io.StringIO()
    writer = validio.Writer(cid, target)
    for row_number, row in enumerate([["1", "a"], ["2", "b"], ["1", "c"]], 1):
        try:
            writer.write_row(row)
            result.append("wrote %s" % row)
        except errors.CutplaceError as error:
            result.append("rejected %s: %s" % (row, error))
        if row_number == 2:
            validio.validate(other_cid, io.StringIO(OTHER))
    written = target.getvalue()
    try:
        writer.close()
        result.append("end-of-data checks: ok")
    except errors.CutplaceError as error:
        result.append("end-of-data checks: %s" % error)
    try:
        validio.validate(fresh_cid(), io.StringIO(written))
        result.append("written data read back: ok")
    except errors.CutplaceError as error:
        result.append("written data read back: %s" % error)
    return result


is_violation = False
for title, run in (("(a) read", read_with_duplicate), ("(b) write", write_with_duplicate)):
    shared_cid = fresh_cid()
    shared_outcome = run(shared_cid, shared_cid)
    fresh_outcome = run(fresh_cid(), fresh_cid())
    print(title)
    print("  same CID used for another validation in between:")
    for item in shared_outcome:
        print("    ", item)
    print("  fresh CID for each run:")
    for item in fresh_outcome:
        print("    ", item)
    if shared_outcome != fresh_outcome:
        is_violation = True

print("VIOLATION" if is_violation else "no violation")
sys.exit(1 if is_violation else 0)
