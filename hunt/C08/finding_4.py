"""
C08 finding 4: the end-of-data check of a run that is closed late ("read without close", closed
after the CID has been used for another data set) is evaluated on the other data set.

Run: cd /tmp/wh_c08 && PYTHONPATH=/tmp/wh_c08 /venv/bin/python -W ignore /tmp/hunt_c08/finding_4.py
"""
import io
import sys

from cutplace import errors, interface, validio

CID_TEXT = """d,format,delimited
f,id,,,,Integer
f,branch
c,id must be unique,IsUnique,id
c,at least 2 distinct branches,DistinctCount,branch >= 2
"""
ONE_BRANCH = "1,north\n2,north\n"  # violates the DistinctCount check
TWO_BRANCHES = "1,north\n2,south\n"  # conforms


def fresh_cid():
    return interface.create_cid_from_string(CID_TEXT)


def close_outcome(validator):
    try:
        validator.close()
        return "ok"
    except errors.CutplaceError as error:
        return "%s: %s" % (type(error).__name__, error)


def read_read_close_close(first_cid, first_data, second_cid, second_data):
    """
    Read ``first_data`` without closing, read ``second_data`` and close it, then close the first
    reader. The result is the pair of end-of-data check results.
    """
    first_reader = validio.Reader(first_cid, io.StringIO(first_data))
    first_rows = list(first_reader.rows())
    assert len(first_rows) == 2
    second_reader = validio.Reader(second_cid, io.StringIO(second_data))
    second_rows = list(second_reader.rows())
    assert len(second_rows) == 2
    second_outcome = close_outcome(second_reader)
    first_outcome = close_outcome(first_reader)
    return first_outcome, second_outcome


def write_read_close(writer_cid, rows_to_write, reader_cid, data_to_read):
    """Write rows, validate some other data in full, then close the writer."""
    writer = validio.Writer(writer_cid, io.StringIO())
    writer.write_rows(rows_to_write)
    validio.validate(reader_cid, io.StringIO(data_to_read))
    return close_outcome(writer)


is_violation = False
for first_data, second_data in ((ONE_BRANCH, TWO_BRANCHES), (TWO_BRANCHES, ONE_BRANCH)):
    shared_cid = fresh_cid()
    shared_outcome = read_read_close_close(shared_cid, first_data, shared_cid, second_data)
    fresh_outcome = read_read_close_close(fresh_cid(), first_data, fresh_cid(), second_data)
    print("read %r without close; read and close %r; close first reader" % (first_data, second_data))
    print("  one CID : first reader's end-of-data check: %s" % shared_outcome[0])
    print("  fresh   : first reader's end-of-data check: %s" % fresh_outcome[0])
    if shared_outcome != fresh_outcome:
        is_violation = True

rows_with_one_branch = [["1", "north"], ["2", "north"]]
shared_cid = fresh_cid()
shared_outcome = write_read_close(shared_cid, rows_with_one_branch, shared_cid, TWO_BRANCHES)
fresh_outcome = write_read_close(fresh_cid(), rows_with_one_branch, fresh_cid(), TWO_BRANCHES)
print("write 2 rows with a single branch; validate %r; close writer" % TWO_BRANCHES)
print("  one CID : writer's end-of-data check: %s" % shared_outcome)
print("  fresh   : writer's end-of-data check: %s" % fresh_outcome)
if shared_outcome != fresh_outcome:
    is_violation = True

print("VIOLATION" if is_violation else "no violation")
sys.exit(1 if is_violation else 0)
