"""
Finding 3: the accepted sets for 'Thousands separator' and 'Escape character' differ from the documented ones.
docs/writing-an-icd.rst: "Thousands separator ... Typical values are: comma (,), dot (.) and the space character."
                         "Escape character ... Possible values are: double quote (")."
The code refuses every spelling of the space character as thousands separator and accepts a backslash as escape character.
"""
import sys

from cutplace import data, errors


def attempt(name, value):
    data_format = data.DataFormat(data.FORMAT_DELIMITED)
    try:
        data_format.set_property(name, value)
        data_format.validate()
        return "accepted -> %r" % getattr(data_format, name)
    except errors.InterfaceError as error:
        return "refused (%s)" % error


violated = False
print("Thousands separator, documented values:")
for value in [",", ".", " ", '" "', "32", "0x20"]:
    # Use decimal separator ',' for '.', so the documented value does not collide with the default decimal separator.
    data_format = data.DataFormat(data.FORMAT_DELIMITED)
    try:
        if value == ".":
            data_format.set_property(data.KEY_DECIMAL_SEPARATOR, ",")
        data_format.set_property(data.KEY_THOUSANDS_SEPARATOR, value)
        data_format.validate()
        result = "accepted -> %r" % data_format.thousands_separator
    except errors.InterfaceError as error:
        result = "refused (%s)" % error
    print("  %-6r %s" % (value, result))
    if value in (",", ".", " ") and result.startswith("refused"):
        violated = True

print("Escape character, documented value is only the double quote:")
for value in ['"', "\\"]:
    result = attempt(data.KEY_ESCAPE_CHARACTER, value)
    print("  %-6r %s" % (value, result))
    if value == "\\" and result.startswith("accepted"):
        violated = True

if violated:
    print("VIOLATION: thousands/escape characters do not come from their documented sets")
    sys.exit(1)
print("no violation")
sys.exit(0)
