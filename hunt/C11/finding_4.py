"""
Finding 4: 'Header' and 'Sheet' accept texts that are no (documented) integer spelling because the value
is handed to Python's int(): digit grouping with underscores ('1_0' is 10), a plus sign, embedded line breaks
and non-ASCII digits are accepted silently, while the hex spelling documented for numbers in a CID is refused.
"""
import sys

from cutplace import data, errors

CANDIDATES = ["2", "1_0", "+3", "1\n", "\t2\r\n", "١٠", "１２", "0x10", "1.0"]
violated = False
for name, format_name in ((data.KEY_HEADER, data.FORMAT_DELIMITED), (data.KEY_SHEET, data.FORMAT_EXCEL)):
    for value in CANDIDATES:
        data_format = data.DataFormat(format_name)
        try:
            data_format.set_property(name, value)
            data_format.validate()
            result = "accepted as %d" % getattr(data_format, name)
            if value in ("1_0", "١٠", "１２"):
                # Signs and surrounding white space are arguably harmless; these are clearly no documented spelling.
                violated = True
        except errors.InterfaceError as error:
            result = "refused (%s)" % error
        print("%-7s %-12r %s" % (name, value, result))

if violated:
    print("VIOLATION: texts that are no plain decimal integer (underscore grouping, non-ASCII digits) are accepted for header/sheet")
    sys.exit(1)
print("no violation")
sys.exit(0)
