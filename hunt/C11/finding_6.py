"""
Finding 6: 'Encoding' is accepted for the formats Excel and ODS although it does not apply to them: the value
is validated and stored but never used, so a CID declaring "Encoding ASCII" happily accepts non-ASCII cell text.
(Quote character, item delimiter, line delimiter ... are properly refused for these formats.)
"""
import os
import sys
import tempfile
import zipfile

from cutplace import errors, interface, validio

_ODS_TEMPLATE = (
    '<?xml version="1.0" encoding="UTF-8"?>'
    '<office:document-content xmlns:office="urn:oasis:names:tc:opendocument:xmlns:office:1.0"'
    ' xmlns:table="urn:oasis:names:tc:opendocument:xmlns:table:1.0"'
    ' xmlns:text="urn:oasis:names:tc:opendocument:xmlns:text:1.0">'
    "<office:body><office:spreadsheet><table:table table:name=\"s\"><table:table-row><table:table-cell>"
    "<text:p>%s</text:p></table:table-cell></table:table-row></table:table></office:spreadsheet></office:body>"
    "</office:document-content>"
)
TEXT = "Käse €"

violated = False
with tempfile.TemporaryDirectory() as folder:
    ods_path = os.path.join(folder, "data.ods")
    with zipfile.ZipFile(ods_path, "w") as ods_file:
        ods_file.writestr("content.xml", (_ODS_TEMPLATE % TEXT).encode("utf-8"))
    xlsx_path = os.path.join(folder, "data.xlsx")
    import xlsxwriter

    workbook = xlsxwriter.Workbook(xlsx_path)
    workbook.add_worksheet("s").write_string(0, 0, TEXT)
    workbook.close()

    for format_name, data_path in (("ods", ods_path), ("excel", xlsx_path)):
        cid = interface.Cid()
        try:
            cid.read("inline", [["d", "format", format_name], ["d", "encoding", "ascii"], ["f", "a"]])
        except errors.InterfaceError as error:
            print("%s: encoding refused: %s" % (format_name, error))
            continue
        with validio.Reader(cid, data_path) as reader:
            rows = list(reader.rows())
        print("%s: property 'encoding' accepted (%r); data read: %r" % (format_name, cid.data_format.encoding, rows))
        violated = True

if violated:
    print("VIOLATION: a property that does not apply to the chosen format is accepted (and silently ignored)")
    sys.exit(1)
print("no violation")
sys.exit(0)
