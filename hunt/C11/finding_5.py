"""
Finding 5: the literal spelling of an item delimiter does not denote the same character as its other spellings
for digits and for white space characters:
* a literal digit is taken as a code ('7' -> chr(7), '9' -> tab), so '7' and 55 / 0x37 / "7" disagree;
* a literal space or tab (and any other character str.strip() removes, e.g. NBSP or the ASCII unit separator 0x1f)
  is refused although 32 / 0x20 / " " / Tab are accepted.
"""
import sys

from cutplace import data, errors


def delimiter_for(value):
    data_format = data.DataFormat(data.FORMAT_DELIMITED)
    try:
        data_format.set_property(data.KEY_ITEM_DELIMITER, value)
    except errors.InterfaceError as error:
        return None, str(error)
    return data_format.item_delimiter, None


POOL = [chr(code) for code in range(32, 127)] + ["\t", "\x1f", "\xa0", "\xa7", "\xe4", "\u20ac"]
mismatches = []
for character in POOL:
    code = ord(character)
    spellings = [
        ("literal", character),
        ("decimal", "%d" % code),
        ("hex", "0x%x" % code),
        ("quoted escape", '"\\u%04x"' % code),
    ]
    outcomes = [(kind, text) + delimiter_for(text) for kind, text in spellings]
    if any(result != character for _, _, result, _ in outcomes):
        mismatches.append(character)
        print(
            "%-7r: " % character
            + "; ".join(
                "%s %r -> %s" % (kind, text, "refused" if error is not None else repr(result))
                for kind, text, result, error in outcomes
            )
        )

if mismatches:
    print("VIOLATION: %d characters whose spellings do not denote the same character: %r" % (len(mismatches), mismatches))
    sys.exit(1)
print("no violation")
sys.exit(0)
