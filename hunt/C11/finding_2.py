"""
Finding 2: for delimited data the property 'Line delimiter' is parsed and checked but has no meaning:
the Writer always ends lines with CR LF and the Reader accepts any line ending, whatever the CID declares.
(For fixed data the very same property is honoured by both.)
"""
import io
import sys

from cutplace import errors, interface, validio

NAME_TO_DELIMITER = {"lf": "\n", "cr": "\r", "crlf": "\r\n"}
violated = False
for name, delimiter in sorted(NAME_TO_DELIMITER.items()):
    cid = interface.Cid()
    cid.read(
        "inline",
        [["d", "format", "delimited"], ["d", "line delimiter", name.upper()], ["f", "a"], ["f", "b"]],
    )
    assert cid.data_format.line_delimiter == delimiter
    target = io.StringIO(newline="")
    with validio.Writer(cid, target) as writer:
        writer.write_row(["1", "2"])
        writer.write_row(["3", "4"])
    written = target.getvalue()
    expected = "1,2" + delimiter + "3,4" + delimiter
    print("Line delimiter %-4s: written %r, expected %r" % (name.upper(), written, expected))
    if written != expected:
        violated = True
    for other_name, other_delimiter in sorted(NAME_TO_DELIMITER.items()):
        if other_name != name:
            text = "1,2" + other_delimiter + "3,4" + other_delimiter
            try:
                with validio.Reader(cid, io.StringIO(text, newline="")) as reader:
                    rows = list(reader.rows())
                print("    reading %r -> accepted as %r" % (text, rows))
                violated = True
            except errors.DataError as error:
                print("    reading %r -> rejected: %s" % (text, error))

if violated:
    print("VIOLATION: the declared line delimiter of delimited data is neither written nor required when reading")
    sys.exit(1)
print("no violation")
sys.exit(0)
