"""
Finding 1: 'Decimal separator' / 'Thousands separator' rows that follow a Decimal field row are accepted,
shown by Cid.data_format, but ignored by the field, which keeps validating with the defaults ('.', none).
"""
import io
import sys

from cutplace import errors, interface, validio

D_ROWS = [
    ["d", "decimal separator", ","],
    ["d", "thousands separator", "."],
]
HEAD = [["d", "format", "delimited"], ["d", "item delimiter", ";"]]
FIELD = [["f", "amount", "", "", "", "Decimal"]]


def outcome(cid_rows, data_text):
    cid = interface.Cid()
    cid.read("inline", cid_rows)
    data_format = cid.data_format
    settings = "decimal_separator=%r, thousands_separator=%r" % (
        data_format.decimal_separator,
        data_format.thousands_separator,
    )
    try:
        with validio.Reader(cid, io.StringIO(data_text, newline="")) as reader:
            result = ("accepted", list(reader.rows()))
    except errors.DataError as error:
        result = ("rejected", str(error))
    return settings, result


violated = False
for data_text in ("1.234,5\n", "1234.5\n"):
    early_settings, early = outcome(HEAD + D_ROWS + FIELD, data_text)
    late_settings, late = outcome(HEAD + FIELD + D_ROWS, data_text)
    print("data %r" % data_text)
    print("  D rows before the field: %s -> %s" % (early_settings, early))
    print("  D rows after the field : %s -> %s" % (late_settings, late))
    if early_settings == late_settings and early[0] != late[0]:
        violated = True

if violated:
    print("VIOLATION: the same completed data format (as reported by Cid.data_format) validates the same data differently;")
    print("the Decimal field declared before the D rows still uses decimal separator '.' and no thousands separator.")
    sys.exit(1)
print("no violation")
sys.exit(0)
