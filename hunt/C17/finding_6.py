"""
Finding 6: rowio.excel_rows() pads every row to the width of the widest row of the sheet
(for x in range(worksheet.ncols)), while delimited_rows() and ods_rows() report each row with its own number
of cells. Validation counts cells (BaseValidator.validate_row), so the same cells get different verdicts:
 - case A: one stray cell to the right of the table makes Excel data reject EVERY row; as delimited text or ODS
   only the row holding the stray cell is rejected;
 - case B: a row that lacks its last (optional) cell is rejected as delimited text / ODS but accepted as Excel.

Run: cd /tmp/wh_c17 && PYTHONPATH=/tmp/wh_c17 /venv/bin/python -W ignore /tmp/hunt_c17/finding_6.py
Exit code 1 = violation observed, 0 = not observed.
"""
import csv
import io
import os
import sys
import tempfile
import zipfile
from xml.sax.saxutils import escape

import xlsxwriter

from cutplace import errors, interface, validio

_NS = (
    'xmlns:office="urn:oasis:names:tc:opendocument:xmlns:office:1.0" '
    'xmlns:table="urn:oasis:names:tc:opendocument:xmlns:table:1.0" '
    'xmlns:text="urn:oasis:names:tc:opendocument:xmlns:text:1.0"'
)


def ods_row_xml(row):
    """One <table:table-row> holding plain text cells."""
    cells = "".join(
        '<table:table-cell office:value-type="string"><text:p>%s</text:p></table:table-cell>' % escape(cell)
        if cell != ""
        else "<table:table-cell/>"
        for cell in row
    )
    return "<table:table-row>%s</table:table-row>" % cells


def write_ods_from_row_xml(path, rows_xml):
    content = (
        '<?xml version="1.0" encoding="UTF-8"?>'
        '<office:document-content %s office:version="1.2"><office:body><office:spreadsheet>'
        '<table:table table:name="Sheet1"><table:table-column/>%s</table:table>'
        "</office:spreadsheet></office:body></office:document-content>" % (_NS, rows_xml)
    )
    with zipfile.ZipFile(path, "w") as ods_zip:
        ods_zip.writestr("mimetype", "application/vnd.oasis.opendocument.spreadsheet")
        ods_zip.writestr("content.xml", content.encode("utf-8"))


def write_ods(path, rows):
    write_ods_from_row_xml(path, "".join(ods_row_xml(row) for row in rows))


def write_xlsx(path, rows):
    workbook = xlsxwriter.Workbook(path)
    worksheet = workbook.add_worksheet()
    for y, row in enumerate(rows):
        for x, cell in enumerate(row):
            worksheet.write_string(y, x, cell)
    workbook.close()


def write_csv(path, rows, encoding="utf-8"):
    with io.open(path, "w", newline="", encoding=encoding) as csv_file:
        csv.writer(csv_file).writerows(rows)


WRITERS = {"csv": write_csv, "ods": write_ods, "xlsx": write_xlsx}
FORMAT_FOR_STORAGE = {"csv": "Delimited", "ods": "ODS", "xlsx": "Excel"}


def verdicts(cid, data_path):
    """List of per-row verdicts: ("accepted", row) or ("rejected", error class); plus a final entry if reading aborts."""
    result = []
    try:
        with validio.Reader(cid, data_path, on_error="yield") as reader:
            for row in reader.rows():
                if isinstance(row, Exception):
                    result.append(("rejected", type(row).__name__))
                else:
                    result.append(("accepted", tuple(row)))
    except errors.CutplaceError as error:
        result.append(("ABORTED", type(error).__name__, str(error).split(": ", 1)[-1][:90]))
    return result


def describe_cid(cid_path):
    """Storage independent description of a loaded CID (or of the error that prevented loading it)."""
    try:
        cid = interface.Cid(cid_path)
    except errors.CutplaceError as error:
        return ("CANNOT LOAD", type(error).__name__, str(error).split(": ", 1)[-1][:110])
    return (
        str(cid.data_format),
        [
            (type(f).__name__, f.field_name, f.is_allowed_to_be_empty, str(f.length), f.rule, f.example)
            for f in cid.field_formats
        ],
        [(type(cid.check_map[name]).__name__, name, cid.check_map[name].rule) for name in cid.check_names],
    )


def main():
    violation = False
    with tempfile.TemporaryDirectory() as folder:
        for title, table in (
            ("case A: stray cell in row 2", [["1", "x"], ["2", "y", "see ticket 4711"], ["3", "z"]]),
            ("case B: row 2 lacks the optional cell", [["1", "x"], ["2"], ["3", "z"]]),
        ):
            print("%s: %r" % (title, table))
            results = {}
            for data_storage in ("csv", "ods", "xlsx"):
                data_path = os.path.join(folder, "data." + data_storage)
                WRITERS[data_storage](data_path, table)
                cid = interface.create_cid_from_string(
                    "D,Format,%s\nD,Encoding,utf-8\nF,id,,,,Integer\nF,remark,,X\n" % FORMAT_FOR_STORAGE[data_storage]
                )
                results[data_storage] = verdicts(cid, data_path)
                print("  data=%-4s -> %s" % (data_storage, results[data_storage]))
            if not (results["csv"] == results["ods"] == results["xlsx"]):
                violation = True
    print("VIOLATION" if violation else "no violation")
    return 1 if violation else 0


if __name__ == "__main__":
    sys.exit(main())
