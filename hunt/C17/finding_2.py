"""
Finding 2: rowio.ods_rows() only sees <table:table-row> elements that are direct children of <table:table>.
Rows that ODF (and LibreOffice) wrap in <table:table-header-rows> ("rows to repeat"), <table:table-row-group>
(Data > Group and Outline) or <table:table-rows> are silently dropped. Hence the same CID stored as ODS loads
into a different interface definition than as CSV / XLSX, and the same table stored as ODS gets different
verdicts than as delimited text / XLSX.

Run: cd /tmp/wh_c17 && PYTHONPATH=/tmp/wh_c17 /venv/bin/python -W ignore /tmp/hunt_c17/finding_2.py
Exit code 1 = violation observed, 0 = not observed.
"""
import csv
import io
import os
import sys
import tempfile
import zipfile
from xml.sax.saxutils import escape

import xlsxwriter

from cutplace import errors, interface, validio

_NS = (
    'xmlns:office="urn:oasis:names:tc:opendocument:xmlns:office:1.0" '
    'xmlns:table="urn:oasis:names:tc:opendocument:xmlns:table:1.0" '
    'xmlns:text="urn:oasis:names:tc:opendocument:xmlns:text:1.0"'
)


def ods_row_xml(row):
    """One <table:table-row> holding plain text cells."""
    cells = "".join(
        '<table:table-cell office:value-type="string"><text:p>%s</text:p></table:table-cell>' % escape(cell)
        if cell != ""
        else "<table:table-cell/>"
        for cell in row
    )
    return "<table:table-row>%s</table:table-row>" % cells


def write_ods_from_row_xml(path, rows_xml):
    content = (
        '<?xml version="1.0" encoding="UTF-8"?>'
        '<office:document-content %s office:version="1.2"><office:body><office:spreadsheet>'
        '<table:table table:name="Sheet1"><table:table-column/>%s</table:table>'
        "</office:spreadsheet></office:body></office:document-content>" % (_NS, rows_xml)
    )
    with zipfile.ZipFile(path, "w") as ods_zip:
        ods_zip.writestr("mimetype", "application/vnd.oasis.opendocument.spreadsheet")
        ods_zip.writestr("content.xml", content.encode("utf-8"))


def write_ods(path, rows):
    write_ods_from_row_xml(path, "".join(ods_row_xml(row) for row in rows))


def write_xlsx(path, rows):
    workbook = xlsxwriter.Workbook(path)
    worksheet = workbook.add_worksheet()
    for y, row in enumerate(rows):
        for x, cell in enumerate(row):
            worksheet.write_string(y, x, cell)
    workbook.close()


def write_csv(path, rows, encoding="utf-8"):
    with io.open(path, "w", newline="", encoding=encoding) as csv_file:
        csv.writer(csv_file).writerows(rows)


WRITERS = {"csv": write_csv, "ods": write_ods, "xlsx": write_xlsx}
FORMAT_FOR_STORAGE = {"csv": "Delimited", "ods": "ODS", "xlsx": "Excel"}


def verdicts(cid, data_path):
    """List of per-row verdicts: ("accepted", row) or ("rejected", error class); plus a final entry if reading aborts."""
    result = []
    try:
        with validio.Reader(cid, data_path, on_error="yield") as reader:
            for row in reader.rows():
                if isinstance(row, Exception):
                    result.append(("rejected", type(row).__name__))
                else:
                    result.append(("accepted", tuple(row)))
    except errors.CutplaceError as error:
        result.append(("ABORTED", type(error).__name__, str(error).split(": ", 1)[-1][:90]))
    return result


def describe_cid(cid_path):
    """Storage independent description of a loaded CID (or of the error that prevented loading it)."""
    try:
        cid = interface.Cid(cid_path)
    except errors.CutplaceError as error:
        return ("CANNOT LOAD", type(error).__name__, str(error).split(": ", 1)[-1][:110])
    return (
        str(cid.data_format),
        [
            (type(f).__name__, f.field_name, f.is_allowed_to_be_empty, str(f.length), f.rule, f.example)
            for f in cid.field_formats
        ],
        [(type(cid.check_map[name]).__name__, name, cid.check_map[name].rule) for name in cid.check_names],
    )


def main():
    violation = False
    with tempfile.TemporaryDirectory() as folder:
        # --- Part A: the CID --------------------------------------------------------------------------------
        cid_table = [
            ["", "Interface: customers"],
            ["D", "Format", "Delimited"],
            ["D", "Encoding", "utf-8"],
            ["", "Name", "Example", "Empty", "Length", "Type", "Rule"],
            ["F", "customer_id", "", "", "", "Integer", "1...999"],
            ["F", "surname", "", "", "1...20"],
            ["F", "first_name", "", "X", "...20"],
            ["F", "gender", "", "", "", "Choice", "female, male"],
            ["C", "id_must_be_unique", "IsUnique", "customer_id"],
        ]
        csv_path = os.path.join(folder, "cid.csv")
        xlsx_path = os.path.join(folder, "cid.xlsx")
        ods_path = os.path.join(folder, "cid.ods")
        write_csv(csv_path, cid_table)
        write_xlsx(xlsx_path, cid_table)
        rows_xml = [ods_row_xml(row) for row in cid_table]
        # The user outlined ("grouped") the rows for surname and first_name, e.g. to be able to fold them.
        grouped = (
            "".join(rows_xml[:5])
            + "<table:table-row-group>%s</table:table-row-group>" % "".join(rows_xml[5:7])
            + "".join(rows_xml[7:])
        )
        write_ods_from_row_xml(ods_path, grouped)
        descriptions = {path: describe_cid(path) for path in (csv_path, xlsx_path, ods_path)}
        for path, description in descriptions.items():
            print("%-9s fields: %s" % (os.path.basename(path), [f[1] for f in description[1]] if description[0] != "CANNOT LOAD" else description))
        if not (descriptions[csv_path] == descriptions[xlsx_path] == descriptions[ods_path]):
            print("  -> CID stored as ODS (with a row group) differs from CSV/XLSX")
            violation = True

        # --- Part B: the data -------------------------------------------------------------------------------
        table = [["id", "name"], ["1", "alice"], ["x", "bob"], ["3", "carol"]]
        results = {}
        for data_storage in ("csv", "ods", "xlsx"):
            data_path = os.path.join(folder, "data." + data_storage)
            if data_storage == "ods":
                # Heading row marked as "row to repeat" on each printed page, the way LibreOffice stores it.
                rows_xml = [ods_row_xml(row) for row in table]
                write_ods_from_row_xml(
                    data_path,
                    "<table:table-header-rows>%s</table:table-header-rows>%s" % (rows_xml[0], "".join(rows_xml[1:])),
                )
            else:
                WRITERS[data_storage](data_path, table)
            cid = interface.create_cid_from_string(
                "D,Format,%s\nD,Encoding,utf-8\nD,Header,1\nF,id,,,,Integer\nF,name\n" % FORMAT_FOR_STORAGE[data_storage]
            )
            results[data_storage] = verdicts(cid, data_path)
            print("data=%-4s -> %s" % (data_storage, results[data_storage]))
        if not (results["csv"] == results["ods"] == results["xlsx"]):
            print("  -> table stored as ODS (heading in table:table-header-rows) gets different verdicts")
            violation = True
    print("VIOLATION" if violation else "no violation")
    return 1 if violation else 0


if __name__ == "__main__":
    sys.exit(main())
