"""
Finding 3: rowio.ods_rows() drops <table:covered-table-cell> elements (the cells hidden by a merged cell), so
every cell to the right of a merged cell moves to the left. excel_rows() keeps the hidden cells as empty cells
in place (like the CSV export of the same sheet). Hence the same CID contents with a merged cell in a field row
load into different interface definitions depending on the storage (ODS vs. XLSX vs. CSV).
(The shipped examples/cid_customers.ods uses merged cells in its rows; Cid.add_check_row() contains a special
hack for this in check rows only.)

Run: cd /tmp/wh_c17 && PYTHONPATH=/tmp/wh_c17 /venv/bin/python -W ignore /tmp/hunt_c17/finding_3.py
Exit code 1 = violation observed, 0 = not observed.
"""
import csv
import io
import os
import sys
import tempfile
import zipfile
from xml.sax.saxutils import escape

import xlsxwriter

from cutplace import errors, interface, validio

_NS = (
    'xmlns:office="urn:oasis:names:tc:opendocument:xmlns:office:1.0" '
    'xmlns:table="urn:oasis:names:tc:opendocument:xmlns:table:1.0" '
    'xmlns:text="urn:oasis:names:tc:opendocument:xmlns:text:1.0"'
)


def ods_row_xml(row):
    """One <table:table-row> holding plain text cells."""
    cells = "".join(
        '<table:table-cell office:value-type="string"><text:p>%s</text:p></table:table-cell>' % escape(cell)
        if cell != ""
        else "<table:table-cell/>"
        for cell in row
    )
    return "<table:table-row>%s</table:table-row>" % cells


def write_ods_from_row_xml(path, rows_xml):
    content = (
        '<?xml version="1.0" encoding="UTF-8"?>'
        '<office:document-content %s office:version="1.2"><office:body><office:spreadsheet>'
        '<table:table table:name="Sheet1"><table:table-column/>%s</table:table>'
        "</office:spreadsheet></office:body></office:document-content>" % (_NS, rows_xml)
    )
    with zipfile.ZipFile(path, "w") as ods_zip:
        ods_zip.writestr("mimetype", "application/vnd.oasis.opendocument.spreadsheet")
        ods_zip.writestr("content.xml", content.encode("utf-8"))


def write_ods(path, rows):
    write_ods_from_row_xml(path, "".join(ods_row_xml(row) for row in rows))


def write_xlsx(path, rows):
    workbook = xlsxwriter.Workbook(path)
    worksheet = workbook.add_worksheet()
    for y, row in enumerate(rows):
        for x, cell in enumerate(row):
            worksheet.write_string(y, x, cell)
    workbook.close()


def write_csv(path, rows, encoding="utf-8"):
    with io.open(path, "w", newline="", encoding=encoding) as csv_file:
        csv.writer(csv_file).writerows(rows)


WRITERS = {"csv": write_csv, "ods": write_ods, "xlsx": write_xlsx}
FORMAT_FOR_STORAGE = {"csv": "Delimited", "ods": "ODS", "xlsx": "Excel"}


def verdicts(cid, data_path):
    """List of per-row verdicts: ("accepted", row) or ("rejected", error class); plus a final entry if reading aborts."""
    result = []
    try:
        with validio.Reader(cid, data_path, on_error="yield") as reader:
            for row in reader.rows():
                if isinstance(row, Exception):
                    result.append(("rejected", type(row).__name__))
                else:
                    result.append(("accepted", tuple(row)))
    except errors.CutplaceError as error:
        result.append(("ABORTED", type(error).__name__, str(error).split(": ", 1)[-1][:90]))
    return result


def describe_cid(cid_path):
    """Storage independent description of a loaded CID (or of the error that prevented loading it)."""
    try:
        cid = interface.Cid(cid_path)
    except errors.CutplaceError as error:
        return ("CANNOT LOAD", type(error).__name__, str(error).split(": ", 1)[-1][:110])
    return (
        str(cid.data_format),
        [
            (type(f).__name__, f.field_name, f.is_allowed_to_be_empty, str(f.length), f.rule, f.example)
            for f in cid.field_formats
        ],
        [(type(cid.check_map[name]).__name__, name, cid.check_map[name].rule) for name in cid.check_names],
    )


def ods_row_xml_with_merge(row, merge_start, merge_count):
    """Like ods_row_xml() but with cells merge_start ... merge_start + merge_count - 1 merged the ODF way."""
    cells = []
    for index, cell in enumerate(row):
        text_p = "<text:p>%s</text:p>" % escape(cell) if cell else ""
        if index == merge_start:
            cells.append(
                '<table:table-cell office:value-type="string" table:number-columns-spanned="%d" '
                'table:number-rows-spanned="1">%s</table:table-cell>' % (merge_count, text_p)
            )
        elif merge_start < index < merge_start + merge_count:
            assert cell == "", "cells covered by a merged cell are empty"
            cells.append("<table:covered-table-cell/>")
        elif cell:
            cells.append('<table:table-cell office:value-type="string">%s</table:table-cell>' % text_p)
        else:
            cells.append("<table:table-cell/>")
    return "<table:table-row>%s</table:table-row>" % "".join(cells)


def write_cid(folder, name, cid_table, merged_row_index, merge_start, merge_count):
    csv_path = os.path.join(folder, name + ".csv")
    xlsx_path = os.path.join(folder, name + ".xlsx")
    ods_path = os.path.join(folder, name + ".ods")
    write_csv(csv_path, cid_table)  # what "save as CSV" yields for a sheet with merged cells: empty cells
    workbook = xlsxwriter.Workbook(xlsx_path)
    worksheet = workbook.add_worksheet()
    for y, row in enumerate(cid_table):
        for x, cell in enumerate(row):
            if cell != "":
                worksheet.write_string(y, x, cell)
    worksheet.merge_range(
        merged_row_index,
        merge_start,
        merged_row_index,
        merge_start + merge_count - 1,
        cid_table[merged_row_index][merge_start],
    )
    workbook.close()
    rows_xml = []
    for y, row in enumerate(cid_table):
        if y == merged_row_index:
            rows_xml.append(ods_row_xml_with_merge(row, merge_start, merge_count))
        else:
            rows_xml.append(ods_row_xml(row))
    write_ods_from_row_xml(ods_path, "".join(rows_xml))
    return csv_path, xlsx_path, ods_path


def main():
    violation = False
    with tempfile.TemporaryDirectory() as folder:
        # Case 1: the (unused) cells "Example" and "Empty" of field "code" are merged into one cell.
        cid_1 = [
            ["D", "Format", "Delimited"],
            ["", "Name", "Example", "Empty", "Length", "Type", "Rule"],
            ["F", "code", "", "", "3...5", "Integer", "100...99999"],
        ]
        # Case 2: the name of the field spans the cells "Name" and "Example"; the field may be empty ("X").
        cid_2 = [
            ["D", "Format", "Delimited"],
            ["", "Name", "Example", "Empty", "Length", "Type", "Rule"],
            ["F", "note", "", "X"],
        ]
        for name, cid_table, merge_start in (("cid_1", cid_1, 2), ("cid_2", cid_2, 1)):
            print("%s: row %r with cells %d and %d merged" % (name, cid_table[2], merge_start + 1, merge_start + 2))
            descriptions = [describe_cid(path) for path in write_cid(folder, name, cid_table, 2, merge_start, 2)]
            for storage, description in zip(("csv", "xlsx", "ods"), descriptions):
                print("  %-4s -> %s" % (storage, description[1:] if description[0] != "CANNOT LOAD" else description))
            if not (descriptions[0] == descriptions[1] == descriptions[2]):
                violation = True
    print("VIOLATION" if violation else "no violation")
    return 1 if violation else 0


if __name__ == "__main__":
    sys.exit(main())
