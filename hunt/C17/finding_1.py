"""
Finding 1: under Format=Excel a DateTime field treats a TEXT cell ending in " 00:00:00" differently
than the same text under Format=Delimited or Format=ODS (both directions: accepts what the others
reject, and rejects what the others accept).

Run: cd /tmp/wh_c17 && PYTHONPATH=/tmp/wh_c17 /venv/bin/python -W ignore /tmp/hunt_c17/finding_1.py
Exit code 1 = violation observed, 0 = not observed.
"""
import csv
import io
import os
import sys
import tempfile
import zipfile
from xml.sax.saxutils import escape

import xlsxwriter

from cutplace import errors, interface, validio

_NS = (
    'xmlns:office="urn:oasis:names:tc:opendocument:xmlns:office:1.0" '
    'xmlns:table="urn:oasis:names:tc:opendocument:xmlns:table:1.0" '
    'xmlns:text="urn:oasis:names:tc:opendocument:xmlns:text:1.0"'
)


def ods_row_xml(row):
    """One <table:table-row> holding plain text cells."""
    cells = "".join(
        '<table:table-cell office:value-type="string"><text:p>%s</text:p></table:table-cell>' % escape(cell)
        if cell != ""
        else "<table:table-cell/>"
        for cell in row
    )
    return "<table:table-row>%s</table:table-row>" % cells


def write_ods_from_row_xml(path, rows_xml):
    content = (
        '<?xml version="1.0" encoding="UTF-8"?>'
        '<office:document-content %s office:version="1.2"><office:body><office:spreadsheet>'
        '<table:table table:name="Sheet1"><table:table-column/>%s</table:table>'
        "</office:spreadsheet></office:body></office:document-content>" % (_NS, rows_xml)
    )
    with zipfile.ZipFile(path, "w") as ods_zip:
        ods_zip.writestr("mimetype", "application/vnd.oasis.opendocument.spreadsheet")
        ods_zip.writestr("content.xml", content.encode("utf-8"))


def write_ods(path, rows):
    write_ods_from_row_xml(path, "".join(ods_row_xml(row) for row in rows))


def write_xlsx(path, rows):
    workbook = xlsxwriter.Workbook(path)
    worksheet = workbook.add_worksheet()
    for y, row in enumerate(rows):
        for x, cell in enumerate(row):
            worksheet.write_string(y, x, cell)
    workbook.close()


def write_csv(path, rows, encoding="utf-8"):
    with io.open(path, "w", newline="", encoding=encoding) as csv_file:
        csv.writer(csv_file).writerows(rows)


WRITERS = {"csv": write_csv, "ods": write_ods, "xlsx": write_xlsx}
FORMAT_FOR_STORAGE = {"csv": "Delimited", "ods": "ODS", "xlsx": "Excel"}


def verdicts(cid, data_path):
    """List of per-row verdicts: ("accepted", row) or ("rejected", error class); plus a final entry if reading aborts."""
    result = []
    try:
        with validio.Reader(cid, data_path, on_error="yield") as reader:
            for row in reader.rows():
                if isinstance(row, Exception):
                    result.append(("rejected", type(row).__name__))
                else:
                    result.append(("accepted", tuple(row)))
    except errors.CutplaceError as error:
        result.append(("ABORTED", type(error).__name__, str(error).split(": ", 1)[-1][:90]))
    return result


def describe_cid(cid_path):
    """Storage independent description of a loaded CID (or of the error that prevented loading it)."""
    try:
        cid = interface.Cid(cid_path)
    except errors.CutplaceError as error:
        return ("CANNOT LOAD", type(error).__name__, str(error).split(": ", 1)[-1][:110])
    return (
        str(cid.data_format),
        [
            (type(f).__name__, f.field_name, f.is_allowed_to_be_empty, str(f.length), f.rule, f.example)
            for f in cid.field_formats
        ],
        [(type(cid.check_map[name]).__name__, name, cid.check_map[name].rule) for name in cid.check_names],
    )


def main():
    violation = False
    with tempfile.TemporaryDirectory() as folder:
        for rule, table in (
            # date only rule: the text "2020-01-02 00:00:00" does not match YYYY-MM-DD
            ("YYYY-MM-DD", [["2020-01-02"], ["2020-01-02 00:00:00"], ["02.01.2020"]]),
            # rule with literal zeros (the rule docs/writing-an-icd.rst recommends for Excel dates)
            ("YYYY-MM-DD 00:00:00", [["2020-01-02"], ["2020-01-02 00:00:00"]]),
        ):
            print("rule %r, table %r" % (rule, table))
            results = {}
            for data_storage in ("csv", "ods", "xlsx"):
                data_path = os.path.join(folder, "data." + data_storage)
                WRITERS[data_storage](data_path, table)
                cid_table = [
                    ["D", "Format", FORMAT_FOR_STORAGE[data_storage]],
                    ["D", "Encoding", "utf-8"],
                    ["F", "day", "", "", "", "DateTime", rule],
                ]
                for cid_storage in ("csv", "ods", "xlsx"):
                    cid_path = os.path.join(folder, "cid_for_%s.%s" % (data_storage, cid_storage))
                    WRITERS[cid_storage](cid_path, cid_table)
                    short = [v[0] for v in verdicts(interface.Cid(cid_path), data_path)]
                    results[(cid_storage, data_storage)] = short
                    print("  cid=%-4s data=%-4s -> %s" % (cid_storage, data_storage, short))
            if len(set(map(tuple, results.values()))) > 1:
                violation = True
    print("VIOLATION" if violation else "no violation")
    return 1 if violation else 0


if __name__ == "__main__":
    sys.exit(main())
