"""
Finding 5: a CID stored as CSV text that starts with a UTF-8 byte order mark (what Excel's "CSV UTF-8" export,
Windows Notepad and many other tools write) cannot be loaded, while the same contents stored as ODS or XLSX
(or as CSV without the mark) load fine. rowio.auto_rows() opens CSV CIDs with encoding "utf-8", so U+FEFF ends
up in the first cell and Cid.read() rejects the row type (str.strip() does not remove U+FEFF). There is no way
to declare the encoding of a CID.

Run: cd /tmp/wh_c17 && PYTHONPATH=/tmp/wh_c17 /venv/bin/python -W ignore /tmp/hunt_c17/finding_5.py
Exit code 1 = violation observed, 0 = not observed.
"""
import csv
import io
import os
import sys
import tempfile
import zipfile
from xml.sax.saxutils import escape

import xlsxwriter

from cutplace import errors, interface, validio

_NS = (
    'xmlns:office="urn:oasis:names:tc:opendocument:xmlns:office:1.0" '
    'xmlns:table="urn:oasis:names:tc:opendocument:xmlns:table:1.0" '
    'xmlns:text="urn:oasis:names:tc:opendocument:xmlns:text:1.0"'
)


def ods_row_xml(row):
    """One <table:table-row> holding plain text cells."""
    cells = "".join(
        '<table:table-cell office:value-type="string"><text:p>%s</text:p></table:table-cell>' % escape(cell)
        if cell != ""
        else "<table:table-cell/>"
        for cell in row
    )
    return "<table:table-row>%s</table:table-row>" % cells


def write_ods_from_row_xml(path, rows_xml):
    content = (
        '<?xml version="1.0" encoding="UTF-8"?>'
        '<office:document-content %s office:version="1.2"><office:body><office:spreadsheet>'
        '<table:table table:name="Sheet1"><table:table-column/>%s</table:table>'
        "</office:spreadsheet></office:body></office:document-content>" % (_NS, rows_xml)
    )
    with zipfile.ZipFile(path, "w") as ods_zip:
        ods_zip.writestr("mimetype", "application/vnd.oasis.opendocument.spreadsheet")
        ods_zip.writestr("content.xml", content.encode("utf-8"))


def write_ods(path, rows):
    write_ods_from_row_xml(path, "".join(ods_row_xml(row) for row in rows))


def write_xlsx(path, rows):
    workbook = xlsxwriter.Workbook(path)
    worksheet = workbook.add_worksheet()
    for y, row in enumerate(rows):
        for x, cell in enumerate(row):
            worksheet.write_string(y, x, cell)
    workbook.close()


def write_csv(path, rows, encoding="utf-8"):
    with io.open(path, "w", newline="", encoding=encoding) as csv_file:
        csv.writer(csv_file).writerows(rows)


WRITERS = {"csv": write_csv, "ods": write_ods, "xlsx": write_xlsx}
FORMAT_FOR_STORAGE = {"csv": "Delimited", "ods": "ODS", "xlsx": "Excel"}


def verdicts(cid, data_path):
    """List of per-row verdicts: ("accepted", row) or ("rejected", error class); plus a final entry if reading aborts."""
    result = []
    try:
        with validio.Reader(cid, data_path, on_error="yield") as reader:
            for row in reader.rows():
                if isinstance(row, Exception):
                    result.append(("rejected", type(row).__name__))
                else:
                    result.append(("accepted", tuple(row)))
    except errors.CutplaceError as error:
        result.append(("ABORTED", type(error).__name__, str(error).split(": ", 1)[-1][:90]))
    return result


def describe_cid(cid_path):
    """Storage independent description of a loaded CID (or of the error that prevented loading it)."""
    try:
        cid = interface.Cid(cid_path)
    except errors.CutplaceError as error:
        return ("CANNOT LOAD", type(error).__name__, str(error).split(": ", 1)[-1][:110])
    return (
        str(cid.data_format),
        [
            (type(f).__name__, f.field_name, f.is_allowed_to_be_empty, str(f.length), f.rule, f.example)
            for f in cid.field_formats
        ],
        [(type(cid.check_map[name]).__name__, name, cid.check_map[name].rule) for name in cid.check_names],
    )


def main():
    violation = False
    with tempfile.TemporaryDirectory() as folder:
        for title, cid_table in (
            ("CID starting with a data format row", [["D", "Format", "Delimited"], ["F", "name"]]),
            ("CID starting with a comment row", [["", "Customers"], ["D", "Format", "Delimited"], ["F", "name"]]),
        ):
            print(title)
            descriptions = {}
            for storage, encoding in (("csv", "utf-8"), ("csv", "utf-8-sig"), ("ods", None), ("xlsx", None)):
                cid_path = os.path.join(folder, "cid." + storage)
                if storage == "csv":
                    write_csv(cid_path, cid_table, encoding)
                else:
                    WRITERS[storage](cid_path, cid_table)
                key = storage if encoding is None else "%s (%s)" % (storage, encoding)
                descriptions[key] = describe_cid(cid_path)
                print("  %-16s -> %s" % (key, descriptions[key]))
            if len(set(map(repr, descriptions.values()))) > 1:
                violation = True
    print("VIOLATION" if violation else "no violation")
    return 1 if violation else 0


if __name__ == "__main__":
    sys.exit(main())
