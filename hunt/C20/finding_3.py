"""
C20 finding 3: when several live classes share module, name and source file (module reloaded with
importlib.reload(), import_plugins() called twice for an edited plugin, class defined by a factory), a new Cid
silently binds an arbitrary one of them - often a stale definition - so the hooks of the class the user
currently has registered under that name are never called.
"""
import importlib
import io
import os
import sys
import tempfile

from cutplace import interface, validio

SOURCE = '''
from cutplace import fields
CALLS = []
class TagFieldFormat(fields.AbstractFieldFormat):
    VERSION = %d
    def __init__(self, field_name, is_allowed_to_be_empty, length, rule, data_format):
        super().__init__(field_name, is_allowed_to_be_empty, length, rule, data_format, empty_value="")
    def validated_value(self, value):
        CALLS.append((self.VERSION, value))
        return value
'''
folder = tempfile.mkdtemp()
module_path = os.path.join(folder, "c20formats.py")
sys.path.insert(0, folder)
sys.dont_write_bytecode = True


def write_version(version):
    with open(module_path, "w") as module_file:
        module_file.write(SOURCE % version)
    # Make sure the reloaded source is picked up.
    os.utime(module_path, (version * 10 + 1000000000, version * 10 + 1000000000))


write_version(1)
import c20formats  # noqa: E402

CID_TEXT = "d,format,delimited\nf,tag,,,,Tag\n"
kept_cids = []  # CIDs from earlier rounds stay in use, which keeps their classes alive
violated = False
for version in range(1, 13):
    if version > 1:
        write_version(version)
        importlib.reload(c20formats)
    current_class = c20formats.TagFieldFormat
    current_calls = c20formats.CALLS
    cid = interface.create_cid_from_string(CID_TEXT)
    kept_cids.append(cid)
    validio.validate(cid, io.StringIO("x\n"))
    bound_class = cid.field_formats[0].__class__
    is_current = bound_class is current_class
    print(
        "current version %d: CID bound to the current class: %s; recorded (version of called class, value): %s"
        % (version, is_current, current_calls)
    )
    if not is_current or current_calls != [(version, "x")]:
        violated = True
print("VIOLATION" if violated else "ok")
sys.exit(1 if violated else 0)
