"""
C20 finding 5: in fixed-width data the guard in front of the value hook does not strip blanks but everything
str.strip() considers white space (tab, U+00A0, U+3000, U+001C..U+001F, U+0085, U+2028, ...), at both ends.
Cells that are not blank are therefore treated as empty (hook skipped, or "must not be empty"), and the
hook receives values from which non-blank characters have been removed.
"""
import io
import sys

from cutplace import errors, fields, interface, validio

LOG = []


class WsRecFieldFormat(fields.AbstractFieldFormat):
    def __init__(self, field_name, is_allowed_to_be_empty, length, rule, data_format):
        super().__init__(field_name, is_allowed_to_be_empty, length, rule, data_format, empty_value="")

    def validated_value(self, value):
        LOG.append(value)
        return value


def cid_for(format_lines, empty_mark):
    return interface.create_cid_from_string(
        "\n".join(format_lines + ["f,code,,%s,3,WsRec" % empty_mark]) + "\n"
    )


FIXED = ["d,format,fixed", "d,line delimiter,lf", "d,encoding,utf-8"]
DELIMITED = ["d,format,delimited", "d,line delimiter,lf", "d,encoding,utf-8"]
CELLS = ["   ", "\u00a0\u00a0\u00a0", "\t\t\t", "\u3000\u3000\u3000", "\x1f\x1f\x1f", "\u00a0a\t", "  a"]

violated = False
for cell in CELLS:
    only_blanks_stripped = cell.strip(" ")
    # fixed, field must not be empty
    LOG.clear()
    rejected = None
    try:
        validio.validate(cid_for(FIXED, ""), io.StringIO(cell + "\n"))
    except errors.DataError as error:
        rejected = str(error)
    fixed_calls = list(LOG)
    # fixed, field may be empty
    LOG.clear()
    validio.validate(cid_for(FIXED, "x"), io.StringIO(cell + "\n"))
    fixed_empty_calls = list(LOG)
    # delimited for comparison (no stripping at all)
    LOG.clear()
    validio.validate(cid_for(DELIMITED, ""), io.StringIO(cell + "\n"))
    delimited_calls = list(LOG)
    expected_calls = [only_blanks_stripped] if only_blanks_stripped else []
    print("cell %-22r expected hook calls %r" % (cell, expected_calls))
    print("    fixed, not empty: calls=%r rejected=%s" % (fixed_calls, rejected))
    print("    fixed, empty ok : calls=%r" % fixed_empty_calls)
    print("    delimited       : calls=%r" % delimited_calls)
    if fixed_calls != expected_calls or fixed_empty_calls != expected_calls:
        violated = True
print("VIOLATION" if violated else "ok")
sys.exit(1 if violated else 0)
