"""
C20 finding 1: a check that fails at the end of the data prevents all later-declared checks from being asked
for their end-of-data verdict (Reader and Writer); a second close() does not make up for it.
"""
import io
import sys

from cutplace import checks, errors, interface, validio

LOG = []


class EndRecCheck(checks.AbstractCheck):
    def reset(self):
        LOG.append(("reset", self.description))

    def check_row(self, field_name_to_value_map, location):
        LOG.append(("row", self.description))

    def check_at_end(self, location):
        LOG.append(("end", self.description))
        if self.rule == "fail":
            raise errors.CheckError("%s fails at end" % self.description, location)

    def cleanup(self):
        LOG.append(("cleanup", self.description))


CID_TEXT = "\n".join(
    [
        "d,format,delimited",
        "f,name",
        "c,first,EndRec,fail",
        "c,second,EndRec,accept",
        "c,third,EndRec,fail",
    ]
)


def ends():
    return [description for kind, description in LOG if kind == "end"]


violated = False

# Reader
cid = interface.create_cid_from_string(CID_TEXT)
LOG.clear()
reader = validio.Reader(cid, io.StringIO("a\nb\n"))
reader.validate_rows()
try:
    reader.close()
except errors.CheckError as error:
    print("Reader.close() raised:", error)
reader.close()  # documented to do nothing the second time
print("Reader: checks asked for end verdict:", ends(), "- expected ['first', 'second', 'third']")
print("Reader: full call log:", LOG)
if ends() != ["first", "second", "third"]:
    violated = True

# Writer
cid = interface.create_cid_from_string(CID_TEXT)
LOG.clear()
writer = validio.Writer(cid, io.StringIO())
writer.write_row(["a"])
try:
    writer.close()
except errors.CheckError as error:
    print("Writer.close() raised:", error)
print("Writer: checks asked for end verdict:", ends(), "- expected ['first', 'second', 'third']")
if ends() != ["first", "second", "third"]:
    violated = True

# Same with built-ins only: the second broken final check is never evaluated or reported.
cid = interface.create_cid_from_string(
    "d,format,delimited\nf,a\nf,b\nc,a_distinct,DistinctCount,a == 1\nc,b_distinct,DistinctCount,b == 1\n"
)
reader = validio.Reader(cid, io.StringIO("1,1\n2,2\n"))
reader.validate_rows()
try:
    reader.close()
except errors.CheckError as error:
    print("built-in checks: only reported:", error)

print("VIOLATION" if violated else "ok")
sys.exit(1 if violated else 0)
