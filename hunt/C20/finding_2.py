"""
C20 finding 2: user (or plugin) field formats and checks that are not *direct* subclasses of
AbstractFieldFormat / AbstractCheck cannot be resolved by class name.
"""
import os
import sys
import tempfile

from cutplace import checks, errors, fields, interface


class BaseTagFieldFormat(fields.AbstractFieldFormat):
    def __init__(self, field_name, is_allowed_to_be_empty, length, rule, data_format):
        super().__init__(field_name, is_allowed_to_be_empty, length, rule, data_format, empty_value="")

    def validated_value(self, value):
        return value


class UpperTagFieldFormat(BaseTagFieldFormat):  # user format derived from another user format
    def validated_value(self, value):
        return value.upper()


class SmallIntFieldFormat(fields.IntegerFieldFormat):  # user format derived from a built-in
    pass


class BaseRowCheck(checks.AbstractCheck):
    pass


class StrictRowCheck(BaseRowCheck):
    pass


class StrictUniqueCheck(checks.IsUniqueCheck):
    pass


PLUGIN_SOURCE = '''
from cutplace import fields
class PlugBaseFieldFormat(fields.AbstractFieldFormat):
    def __init__(self, field_name, is_allowed_to_be_empty, length, rule, data_format):
        super().__init__(field_name, is_allowed_to_be_empty, length, rule, data_format, empty_value="")
    def validated_value(self, value):
        return value
class PlugChildFieldFormat(PlugBaseFieldFormat):
    pass
'''
plugin_folder = tempfile.mkdtemp()
with open(os.path.join(plugin_folder, "c20plugins.py"), "w") as plugin_file:
    plugin_file.write(PLUGIN_SOURCE)
interface.import_plugins(plugin_folder)

CASES = [
    ("field BaseTag (direct subclass)", "d,format,delimited\nf,a,,,,BaseTag\n", True),
    ("field UpperTag (subclass of user format)", "d,format,delimited\nf,a,,,,UpperTag\n", False),
    ("field SmallInt (subclass of built-in Integer)", "d,format,delimited\nf,a,,,,SmallInt\n", False),
    ("field PlugBase (plugin folder, direct)", "d,format,delimited\nf,a,,,,PlugBase\n", True),
    ("field PlugChild (plugin folder, indirect)", "d,format,delimited\nf,a,,,,PlugChild\n", False),
    ("check BaseRow (direct subclass)", "d,format,delimited\nf,a\nc,x,BaseRow,a\n", True),
    ("check StrictRow (subclass of user check)", "d,format,delimited\nf,a\nc,x,StrictRow,a\n", False),
    ("check StrictUnique (subclass of built-in IsUnique)", "d,format,delimited\nf,a\nc,x,StrictUnique,a\n", False),
]
violated = False
for title, cid_text, _ in CASES:
    try:
        interface.create_cid_from_string(cid_text)
        print("resolved:     %s" % title)
    except errors.InterfaceError as error:
        print("NOT resolved: %s\n              %s" % (title, str(error)[:110]))
        violated = True
print("VIOLATION" if violated else "ok")
sys.exit(1 if violated else 0)
