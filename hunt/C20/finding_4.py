"""
C20 finding 4: for a data set read with Reader (and so validio.rows(), validio.validate() and the command
line) every check is reset twice before the first row (once by the constructor, once by rows()), a Writer
resets once, validate(..., validate_until=0) resets once.
"""
import io
import sys

from cutplace import checks, interface, validio

LOG = []


class ResetRecCheck(checks.AbstractCheck):
    def reset(self):
        LOG.append("reset")

    def check_row(self, field_name_to_value_map, location):
        LOG.append("row")

    def check_at_end(self, location):
        LOG.append("end")

    def cleanup(self):
        LOG.append("cleanup")


cid = interface.create_cid_from_string("d,format,delimited\nf,a\nc,only check,ResetRec,\n")
observed = {}

LOG.clear()
with validio.Reader(cid, io.StringIO("1\n2\n")) as reader:
    reader.validate_rows()
observed["Reader + validate_rows"] = list(LOG)

LOG.clear()
for _ in validio.rows(cid, io.StringIO("1\n2\n")):
    pass
observed["validio.rows()"] = list(LOG)

LOG.clear()
validio.validate(cid, io.StringIO("1\n2\n"))
observed["validio.validate()"] = list(LOG)

LOG.clear()
validio.validate(cid, io.StringIO("1\n2\n"), validate_until=0)
observed["validio.validate(validate_until=0)"] = list(LOG)

LOG.clear()
with validio.Writer(cid, io.StringIO()) as writer:
    writer.write_rows([["1"], ["2"]])
observed["Writer"] = list(LOG)

violated = False
for title, log in observed.items():
    reset_count = log.count("reset")
    print("%-36s resets=%d  calls=%s" % (title, reset_count, log))
    if reset_count != 1:
        violated = True
print("VIOLATION (reset is not called exactly once per data set)" if violated else "ok")
sys.exit(1 if violated else 0)
