"""
C20 finding 6: a check supplied by the user as an object through the documented Cid.add_check() can never be
registered: the method reads the misspelled attribute ``descrption`` and fails with AttributeError (while the
sibling Cid.add_field_format() works), so such a check is never reset, never sees a row and is never asked at
the end.
"""
import io
import sys

from cutplace import checks, fields, interface, validio

LOG = []


class ApiRecCheck(checks.AbstractCheck):
    def reset(self):
        LOG.append("reset")

    def check_row(self, field_name_to_value_map, location):
        LOG.append("row")

    def check_at_end(self, location):
        LOG.append("end")

    def cleanup(self):
        LOG.append("cleanup")


class ApiRecFieldFormat(fields.AbstractFieldFormat):
    def __init__(self, field_name, is_allowed_to_be_empty, length, rule, data_format):
        super().__init__(field_name, is_allowed_to_be_empty, length, rule, data_format, empty_value="")

    def validated_value(self, value):
        LOG.append("value")
        return value


cid = interface.Cid()
cid.add_data_format_row(["format", "delimited"])
cid.data_format.validate()
cid.add_field_format(ApiRecFieldFormat("a", False, "", "", cid.data_format))
print("add_field_format(): ok, fields =", cid.field_names)
violated = False
try:
    cid.add_check(ApiRecCheck("rows are fine", "", cid.field_names))
    print("add_check(): ok, checks =", cid.check_names)
except AttributeError as error:
    print("add_check(): AttributeError:", error)
    violated = True
validio.validate(cid, io.StringIO("1\n2\n"))
print("calls during validate():", LOG)
if LOG != ["reset", "reset", "value", "row", "value", "row", "end", "cleanup"] and LOG != [
    "reset", "value", "row", "value", "row", "end", "cleanup"
]:
    violated = True
print("VIOLATION" if violated else "ok")
sys.exit(1 if violated else 0)
