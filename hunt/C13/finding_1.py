"""
C13 finding 1: with line delimiter "any" a CR followed by a record that starts with LF is always taken as
CR LF, so inputs that do have a valid decomposition (record, CR, record starting with LF) are rejected.

Run: cd /tmp/wh_c13 && PYTHONPATH=/tmp/wh_c13 /venv/bin/python -W ignore /tmp/hunt_c13/finding_1.py
"""
import io
import sys

import cutplace
from cutplace import errors, rowio


def fixed_cid(widths, line_delimiter):
    cid = cutplace.Cid()
    cid_rows = [["d", "format", "fixed"], ["d", "line delimiter", line_delimiter]]
    for index, width in enumerate(widths):
        cid_rows.append(["f", "f%d" % index, "", "x", str(width)])
    cid.read("inline", cid_rows)
    return cid


CASES = [
    # (text, widths, decomposition that proves the input is well-formed under "any")
    ("aa\r\na", [2], "'aa' CR '\\na'"),
    ("a\r\n\ra\r", [1], "'a' CR '\\n' CR 'a' CR"),
    ("aaa\r\naa", [1, 2], "'a','aa' CR '\\n','aa'"),
]

violated = False
for text, widths, decomposition in CASES:
    names_and_lengths = [("f%d" % i, w) for i, w in enumerate(widths)]
    print("input %r, widths %s; valid decomposition: %s" % (text, widths, decomposition))
    # The very same text is accepted when only CR is permitted ...
    cr_rows = list(rowio.fixed_rows(io.StringIO(text, newline=""), "utf-8", names_and_lengths, "\r"))
    print("  line delimiter CR : accepted, rows = %r" % cr_rows)
    # ... so "any", which permits CR as well, has to accept it too.
    for label, read in [
        ("rowio.fixed_rows", lambda: list(rowio.fixed_rows(io.StringIO(text, newline=""), "utf-8", names_and_lengths, "any"))),
        ("cutplace.rows   ", lambda: list(cutplace.rows(fixed_cid(widths, "any"), io.StringIO(text, newline="")))),
    ]:
        try:
            any_rows = read()
            print("  line delimiter any (%s): accepted, rows = %r" % (label, any_rows))
        except errors.DataFormatError as error:
            violated = True
            print("  line delimiter any (%s): REJECTED well-formed input: %s" % (label, error))

print("VIOLATION" if violated else "no violation")
sys.exit(1 if violated else 0)
