"""
C13 finding 2: with line delimiter "any", reading a row that ends in CR consumes one character of the NEXT
record from the stream (look-ahead for an optional LF) and keeps it only inside the generator. If reading is
continued with a fresh reader on the same stream (cutplace.rows / Reader.rows / rowio.fixed_rows called again),
that character is lost: the rows returned no longer reproduce the input.

Run: cd /tmp/wh_c13 && PYTHONPATH=/tmp/wh_c13 /venv/bin/python -W ignore /tmp/hunt_c13/finding_2.py
"""
import io
import sys

import cutplace
from cutplace import errors


def fixed_cid(widths, line_delimiter):
    cid = cutplace.Cid()
    cid_rows = [["d", "format", "fixed"], ["d", "line delimiter", line_delimiter]]
    for index, width in enumerate(widths):
        cid_rows.append(["f", "f%d" % index, "", "x", str(width)])
    cid.read("inline", cid_rows)
    return cid


def read_in_two_steps(text, line_delimiter):
    """First row with one reader, remaining rows with a fresh reader on the same stream."""
    cid = fixed_cid([2], line_delimiter)
    stream = io.StringIO(text, newline="")
    first_reader = cutplace.rows(cid, stream)
    first_row = next(first_reader)
    first_reader.close()
    position = stream.tell()
    try:
        remaining_rows = list(cutplace.rows(cid, stream))
    except errors.DataFormatError as error:
        remaining_rows = error
    return first_row, position, remaining_rows


violated = False
expected = [["ab"], ["cd"], ["ef"], ["gh"]]
for text, line_delimiter in [
    ("ab\ncd\nef\ngh\n", "any"),  # control: LF under "any" works
    ("ab\rcd\ref\rgh\r", "cr"),  # control: CR under "cr" works
    ("ab\rcd\ref\rgh\r", "any"),  # CR under "any": one character is swallowed
]:
    first_row, position, remaining_rows = read_in_two_steps(text, line_delimiter)
    print("input %r, line delimiter %s" % (text, line_delimiter))
    print("  first reader returned %r and left the stream at offset %d (row + delimiter = 3)" % (first_row, position))
    print("  fresh reader on the same stream: %r" % (remaining_rows,))
    if isinstance(remaining_rows, Exception) or [first_row] + remaining_rows != expected:
        violated = True
        print("  -> character %r was consumed but never returned; the remainder is misaligned" % text[3:position])

print("VIOLATION" if violated else "no violation")
sys.exit(1 if violated else 0)
