"""
C13 finding 3: a fixed CID accepts a fractional length for a Decimal field (e.g. 2.5);
interface.field_names_and_lengths() silently truncates it to 2, so rows are read with items whose width
differs from the declared one, without any error.

Run: cd /tmp/wh_c13 && PYTHONPATH=/tmp/wh_c13 /venv/bin/python -W ignore /tmp/hunt_c13/finding_3.py
"""
import io
import sys

import cutplace
from cutplace import errors, interface

violated = False
for declared in ["2.5", "1.5", "2.9999"]:
    cid = cutplace.Cid()
    try:
        cid.read(
            "inline",
            [
                ["d", "format", "fixed"],
                ["d", "line delimiter", "lf"],
                ["f", "amount", "", "", declared, "Decimal"],
            ],
        )
    except errors.InterfaceError as error:
        print("length %s: CID rejected (fine): %s" % (declared, error))
        continue
    declared_length = cid.field_formats[0].length
    used = interface.field_names_and_lengths(cid)
    data = "12\n34\n"
    try:
        rows = list(cutplace.rows(cid, io.StringIO(data, newline="")))
    except errors.DataError as error:
        print("length %s: CID accepted, reading failed (fine): %s" % (declared, error))
        continue
    widths = sorted(set(len(item) for row in rows for item in row))
    print(
        "length %s: CID accepted, declared length = %s, field_names_and_lengths = %r, rows(%r) = %r, item widths = %r"
        % (declared, declared_length, used, data, rows, widths)
    )
    if any(str(width) != declared for width in widths):
        violated = True

print("VIOLATION" if violated else "no violation")
sys.exit(1 if violated else 0)
