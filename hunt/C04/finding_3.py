"""
C04 finding 3: ODS rows that are stored in <table:table-header-rows> (LibreOffice: "rows to repeat"
of a print range) or <table:table-row-group> (LibreOffice: Data > Group and Outline) are silently
dropped by rowio.ods_rows(), which only looks at <table:table-row> elements that are direct children
of <table:table>. Consequently the row numbers of errors are too small, data rows are swallowed as
header rows, and broken rows inside a group are accepted by never being looked at.
"""
import os
import sys
import tempfile
import zipfile

from cutplace import interface, validio

HEAD = (
    '<?xml version="1.0" encoding="UTF-8"?>'
    '<office:document-content xmlns:office="urn:oasis:names:tc:opendocument:xmlns:office:1.0" '
    'xmlns:table="urn:oasis:names:tc:opendocument:xmlns:table:1.0" '
    'xmlns:text="urn:oasis:names:tc:opendocument:xmlns:text:1.0" office:version="1.2">'
    '<office:body><office:spreadsheet><table:table table:name="Sheet1">'
)
TAIL = "</table:table></office:spreadsheet></office:body></office:document-content>"


def ods_row(row):
    return (
        "<table:table-row>"
        + "".join(
            '<table:table-cell office:value-type="string"><text:p>%s</text:p></table:table-cell>' % item
            for item in row
        )
        + "</table:table-row>"
    )


def write_ods(name, body):
    path = os.path.join(folder, name)
    with zipfile.ZipFile(path, "w") as ods_zip:
        ods_zip.writestr("mimetype", "application/vnd.oasis.opendocument.spreadsheet")
        ods_zip.writestr("content.xml", HEAD + body + TAIL)
    return path


def results(cid, path):
    result = []
    with validio.Reader(cid, path, on_error="yield") as reader:
        for item in reader.rows():
            result.append(item)
            print("   ", ("rejected: %s" % item) if isinstance(item, Exception) else ("accepted: %r" % item))
    return result


folder = tempfile.mkdtemp()
violated = False

# Case A: 1 header row (kept in table:table-header-rows), then the rows ['1', 'x'] and ['z', 'y'].
# Expected: ['1', 'x'] accepted, ['z', 'y'] rejected at row 3, column 1.
cid = interface.create_cid_from_string("d,format,ods\nd,header,1\nf,a,,,,Integer\nf,b,,x,,Text\n")
print("case A: header row in table:table-header-rows; rows: header, ['1','x'], ['z','y']")
path = write_ods(
    "a.ods", "<table:table-header-rows>" + ods_row(["a", "b"]) + "</table:table-header-rows>"
    + ods_row(["1", "x"]) + ods_row(["z", "y"])
)
result = results(cid, path)
accepted = [item for item in result if not isinstance(item, Exception)]
rejected = [item for item in result if isinstance(item, Exception)]
if accepted != [["1", "x"]]:
    print("  VIOLATION: accepted rows are %r instead of [['1', 'x']]" % accepted)
    violated = True
if [error.location.line + 1 for error in rejected] != [3]:
    print("  VIOLATION: rejected row numbers are %r instead of [3]" % [e.location.line + 1 for e in rejected])
    violated = True

# Case B: no header; rows ['1', 'x'], ['z', 'y'] (grouped), ['q', 'y'].
# Expected: row 1 accepted, rows 2 and 3 rejected.
cid = interface.create_cid_from_string("d,format,ods\nf,a,,,,Integer\nf,b,,x,,Text\n")
print("case B: row 2 in table:table-row-group; rows: ['1','x'], ['z','y'], ['q','y']")
path = write_ods(
    "b.ods", ods_row(["1", "x"]) + "<table:table-row-group>" + ods_row(["z", "y"]) + "</table:table-row-group>"
    + ods_row(["q", "y"])
)
result = results(cid, path)
rejected_rows = [item.location.line + 1 for item in result if isinstance(item, Exception)]
if rejected_rows != [2, 3]:
    print("  VIOLATION: rejected row numbers are %r instead of [2, 3]" % rejected_rows)
    violated = True

sys.exit(1 if violated else 0)
