"""
C04 finding 2: with Excel data the number of items of a row is not the number of cells of that row
but the width of the widest row of the whole sheet (rowio.excel_rows() pads every row to
worksheet.ncols), so ragged rows get the wrong verdict.
"""
import os
import sys
import tempfile

import xlsxwriter

from cutplace import interface, validio

CID_TEXT = """d,format,excel
f,a,,,,Integer
f,b,,x,,Text
"""
cid = interface.create_cid_from_string(CID_TEXT)
folder = tempfile.mkdtemp()


def verdicts(name, table):
    path = os.path.join(folder, name)
    workbook = xlsxwriter.Workbook(path)
    worksheet = workbook.add_worksheet()
    for y, row in enumerate(table):
        for x, value in enumerate(row):
            worksheet.write_string(y, x, value)
    workbook.close()
    result = []
    with validio.Reader(cid, path, on_error="yield") as reader:
        for item in reader.rows():
            result.append(item)
            print("   ", ("rejected: %s" % item) if isinstance(item, Exception) else ("accepted: %r" % item))
    return result


violated = False

print("table A: [['1', 'x'], ['2']] - row 2 has 1 item instead of 2 and must be rejected")
result = verdicts("a.xlsx", [["1", "x"], ["2"]])
if not isinstance(result[1], Exception):
    print("  VIOLATION: row 2 with only 1 item was accepted")
    violated = True

print("table B: [['1', 'x'], ['2', 'y', 'z']] - row 1 has exactly 2 valid items and must be accepted")
result = verdicts("b.xlsx", [["1", "x"], ["2", "y", "z"]])
if isinstance(result[0], Exception):
    print("  VIOLATION: row 1 with exactly 2 valid items was rejected because another row is wider")
    violated = True

sys.exit(1 if violated else 0)
