"""
C04 finding 5: creating a second Reader (or Writer) for the same Cid object while a first Reader is still
reading resets the row checks of the first one (BaseValidator.__init__() calls check.reset() on the checks
owned by the shared Cid), so a row that fails a row check is accepted. The other way round, the keys seen by
one reader make the other reader reject rows that are unique within their own data.
"""
import io
import sys

from cutplace import interface, validio

cid = interface.create_cid_from_string(
    "d,format,delimited\nf,a,,,,Integer\nf,b,,x,,Text\nc,a_unique,IsUnique,a\n"
)
violated = False

first_reader = validio.Reader(cid, io.StringIO("1,x\n2,y\n1,z\n"), on_error="yield")
first_rows = first_reader.rows()
print("first reader: ", next(first_rows))
second_reader = validio.Reader(cid, io.StringIO("7,q\n1,x\n"), on_error="yield")
print("first reader: ", next(first_rows))
third_item = next(first_rows)
print("first reader: ", third_item)
if not isinstance(third_item, Exception):
    print("  VIOLATION: row 3 of the first input duplicates a = '1' of row 1 but was accepted")
    violated = True

# The other direction: two readers sharing the CID that are both in the middle of reading.
reader_a = validio.Reader(cid, io.StringIO("1,x\n5,y\n"), on_error="yield")
reader_b = validio.Reader(cid, io.StringIO("2,q\n5,r\n"), on_error="yield")
rows_a = reader_a.rows()
rows_b = reader_b.rows()
print("reader a: ", next(rows_a))
print("reader b: ", next(rows_b))
print("reader a: ", next(rows_a))
item_b = next(rows_b)
print("reader b: ", item_b)
if isinstance(item_b, Exception):
    print("  VIOLATION: row 2 of input b is unique within b but was rejected because of a row of input a")
    violated = True
sys.exit(1 if violated else 0)
