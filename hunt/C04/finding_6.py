"""
C04 finding 6: rows that are rejected by the format layer (rowio) instead of validate_row() are reported
with the wrong row number.

a) delimited data, row that cannot be parsed: rowio._raise_delimited_data_format_error() advances a fresh
   0-based Location by the 1-based csv line_num, so the reported row is one too big.
b) delimited and fixed data read from a path, row with a byte that cannot be decoded: the whole file is decoded
   in one chunk on the first read, so the error is reported for row 1 (and none of the intact rows before the
   broken one is delivered).
"""
import os
import sys
import tempfile

from cutplace import errors, interface, validio

folder = tempfile.mkdtemp()
violated = False


def first_error(cid, data_bytes, name):
    path = os.path.join(folder, name)
    with open(path, "wb") as data_file:
        data_file.write(data_bytes)
    rows_before = []
    try:
        with validio.Reader(cid, path, on_error="yield") as reader:
            for item in reader.rows():
                if isinstance(item, Exception):
                    return rows_before, item
                rows_before.append(item)
    except errors.DataError as error:
        return rows_before, error
    return rows_before, None


delimited_cid = interface.create_cid_from_string(
    "d,format,delimited\nd,encoding,utf-8\nf,a,,,,Integer\nf,b,,x,,Text\n"
)
fixed_cid = interface.create_cid_from_string("d,format,fixed\nd,encoding,utf-8\nf,a,,,1,Integer\nf,b,,x,1,Text\n")

print('a) delimited, row 2 is broken: 1,x / 2,"y"z / 3,x')
rows_before, error = first_error(delimited_cid, b'1,x\n2,"y"z\n3,x\n', "a.csv")
print("    rows before: %r; error: %s" % (rows_before, error))
if error is None or error.location.line + 1 != 2:
    print("  VIOLATION: the location does not name row 2")
    violated = True

print("b1) delimited, row 3 contains byte 0xff: 1,x / 2,y / 3,<ff> / 4,z")
rows_before, error = first_error(delimited_cid, b"1,x\n2,y\n3,\xff\n4,z\n", "b1.csv")
print("    rows before: %r; error: %s" % (rows_before, error))
if error is None or error.location.line + 1 != 3:
    print("  VIOLATION: the location does not name row 3")
    violated = True

print("b2) fixed, row 3 contains byte 0xff: 1x / 2y / 3<ff> / 4z")
rows_before, error = first_error(fixed_cid, b"1x\n2y\n3\xff\n4z\n", "b2.txt")
print("    rows before: %r; error: %s" % (rows_before, error))
if error is None or error.location.line + 1 != 3:
    print("  VIOLATION: the location does not name row 3")
    violated = True

sys.exit(1 if violated else 0)
