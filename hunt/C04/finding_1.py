"""
C04 finding 1: a second pass over Reader.rows() reports wrong row numbers.

The location of the Reader is created once in Reader.__init__() and never reset by Reader.rows(),
so every further pass over the same input continues counting where the previous pass stopped.
"""
import io
import os
import sys
import tempfile

from cutplace import interface, validio

CID_TEXT = """d,format,delimited
d,header,1
f,a,,,,Integer
f,b,,x,,Text
"""
DATA = "a,b\n1,x\nz,y\n3,w\n"  # the only broken row is row 3 (header included), column 1

cid = interface.create_cid_from_string(CID_TEXT)
data_path = os.path.join(tempfile.mkdtemp(), "data.csv")
with open(data_path, "w", encoding="utf-8", newline="") as data_file:
    data_file.write(DATA)

violated = False
with validio.Reader(cid, data_path, on_error="yield") as reader:
    for pass_number in (1, 2):
        errors_found = [item for item in reader.rows() if isinstance(item, Exception)]
        assert len(errors_found) == 1, errors_found
        error = errors_found[0]
        print("pass %d: %s" % (pass_number, error))
        row_number = error.location.line + 1
        if row_number != 3:
            print("  VIOLATION: row number is %d but the broken row is row 3" % row_number)
            violated = True

# Same with on_error="raise": after the first error, a fresh rows() starts counting at the failed row.
with validio.Reader(cid, data_path) as reader:
    for pass_number in (1, 2):
        try:
            for _ in reader.rows():
                pass
        except Exception as error:
            print("raise mode, pass %d: %s" % (pass_number, error))
            if error.location.line + 1 != 3:
                print("  VIOLATION: row number is %d but the broken row is row 3" % (error.location.line + 1))
                violated = True

sys.exit(1 if violated else 0)
