"""
C04 finding 4: whether a row passes the row checks depends on rows that have been rejected and on the
order in which the checks are declared. BaseValidator.validate_row() runs the checks one after the
other; IsUniqueCheck.check_row() remembers the key of a row as soon as *its* check passes, even if
a later check (or nothing at all, in case of an earlier field error) rejects the row.
"""
import io
import sys

from cutplace import interface, validio

FIELDS = "d,format,delimited\nf,a,,,,Integer\nf,b,,x,,Text\n"
UNIQUE_A = "c,a_unique,IsUnique,a\n"
UNIQUE_B = "c,b_unique,IsUnique,b\n"
DATA = "1,x\n2,x\n2,y\n"  # row 2 is rejected (b='x' is a duplicate); what about row 3?


def verdicts(cid_text, data=DATA):
    cid = interface.create_cid_from_string(cid_text)
    result = []
    with validio.Reader(cid, io.StringIO(data), on_error="yield") as reader:
        for item in reader.rows():
            result.append(not isinstance(item, Exception))
            print("   ", ("rejected: %s" % item) if isinstance(item, Exception) else ("accepted: %r" % item))
    return result


print("checks declared as: a_unique, b_unique")
verdicts_ab = verdicts(FIELDS + UNIQUE_A + UNIQUE_B)
print("checks declared as: b_unique, a_unique")
verdicts_ba = verdicts(FIELDS + UNIQUE_B + UNIQUE_A)
print("only a_unique, but row 2 rejected by a field error in column 2 (length of b limited to 1)")
verdicts_field = verdicts("d,format,delimited\nf,a,,,,Integer\nf,b,,x,1,Text\n" + UNIQUE_A, "1,x\n2,xx\n2,y\n")

violated = False
if verdicts_ab != verdicts_ba:
    print(
        "VIOLATION: the same data under the same set of checks gives %r or %r depending on the order of the checks; "
        "'every row check passes' cannot be both true and false for row 3" % (verdicts_ab, verdicts_ba)
    )
    violated = True
if verdicts_ab[2] != verdicts_field[2]:
    print(
        "VIOLATION: a = '2' of rejected row 2 blocks row 3 when row 2 was rejected by a later check (%r) "
        "but not when it was rejected by a field (%r)" % (verdicts_ab, verdicts_field)
    )
    violated = True
sys.exit(1 if violated else 0)
