"""
C05 finding 1: a row rejected by a *later* check has already registered its key with an *earlier*
IsUnique check, so a following row is rejected as "duplicate" of a row that was never accepted.
"""
import io
import sys

import cutplace
from cutplace import errors


def create_cid():
    cid = cutplace.Cid()
    cid.read(
        "<cid>",
        [
            ["d", "format", "delimited"],
            ["f", "customer_id"],
            ["f", "email"],
            ["c", "customer_id must be unique", "IsUnique", "customer_id"],
            ["c", "email must be unique", "IsUnique", "email"],
        ],
    )
    return cid


DATA = "1,a@x\n2,a@x\n2,b@x\n"
# row 1: accepted
# row 2: rejected (email a@x already used by row 1) -> must not register customer_id 2
# row 3: customer_id 2 and email b@x have never been seen in an ACCEPTED row -> must be accepted

results = []
reader = cutplace.Reader(create_cid(), io.StringIO(DATA), on_error="yield")
for item in reader.rows():
    results.append(item)
    print("row or error:", item if not isinstance(item, Exception) else "%s: %s" % (type(item).__name__, item))
reader.close()

third = results[2]
if isinstance(third, errors.CheckError):
    print()
    print("VIOLATION: row 3 ['2', 'b@x'] was rejected although no earlier ACCEPTED row has customer_id '2';")
    print("the error refers back to %s which is the row that was itself rejected." % third.see_also_location)
    sys.exit(1)
print("ok: row 3 was accepted")
sys.exit(0)
