"""
C05 finding 2: the state of IsUnique / DistinctCount lives in the check objects of the Cid, not in the
Reader/Writer. Two validators that use the same Cid at the same time (copying rows from a Reader to a
Writer, or reading two files in lockstep) share and wipe each other's keys, so rows are rejected because of
rows of ANOTHER data set and real duplicates within a data set are missed.
"""
import io
import sys

import cutplace
from cutplace import errors


def create_cid(with_count=False):
    cid = cutplace.Cid()
    rows = [
        ["d", "format", "delimited"],
        ["f", "customer_id"],
        ["c", "customer_id must be unique", "IsUnique", "customer_id"],
    ]
    if with_count:
        rows.append(["c", "at most 2 customers", "DistinctCount", "customer_id <= 2"])
    cid.read("<cid>", rows)
    return cid


violated = False

print("--- (a) copy valid rows from a Reader to a Writer, both using the same Cid")
cid = create_cid()
target = io.StringIO()
writer = cutplace.Writer(cid, target)
for row in cutplace.rows(cid, io.StringIO("1\n2\n3\n")):
    try:
        writer.write_row(row)
        print("written:", row)
    except errors.DataError as error:
        print("writer rejected %s: %s" % (row, error))
        violated = True
writer.close()
print("output: %r (expected '1\\r\\n2\\r\\n3\\r\\n')" % target.getvalue())

print("--- (b) two readers on the same Cid, consumed alternately")
cid = create_cid()
reader_a = cutplace.Reader(cid, io.StringIO("1\n1\n"), on_error="yield")  # row 2 duplicates row 1
reader_b = cutplace.Reader(cid, io.StringIO("7\n1\n"), on_error="yield")  # no duplicates at all
rows_a = reader_a.rows()
rows_b = reader_b.rows()
a1 = next(rows_a)
b1 = next(rows_b)  # starting b wipes the keys collected for a
a2 = next(rows_a)
b2 = next(rows_b)
print("data set A:", a1, repr(a2))
print("data set B:", b1, repr(b2))
if not isinstance(a2, errors.CheckError):
    print("VIOLATION: duplicate row 2 of data set A was accepted")
    violated = True
if isinstance(b2, errors.CheckError):
    print("VIOLATION: row 2 of data set B was rejected because of a row in data set A: %s" % b2)
    violated = True

print("--- (c) DistinctCount counts values across both data sets")
cid = create_cid(with_count=True)
reader_a = cutplace.Reader(cid, io.StringIO("1\n2\n"), on_error="yield")
reader_b = cutplace.Reader(cid, io.StringIO("3\n4\n"), on_error="yield")
for _ in zip(reader_a.rows(), reader_b.rows()):
    pass
try:
    reader_a.close()
    print("close of A ok")
except errors.CheckError as error:
    print("VIOLATION: data set A has 2 distinct values (<= 2) but close() failed: %s" % error)
    violated = True

sys.exit(1 if violated else 0)
