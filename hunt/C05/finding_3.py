"""
C05 finding 3: with cutplace.validate() (and the command line, and "with Reader(...)") a duplicate row
aborts reading, then Reader.__exit__() -> close() runs DistinctCountCheck.check_at_end() on the truncated
data and its CheckError REPLACES the IsUnique error. The caller gets an error that is not located at the
duplicate row, has no reference to the first occurrence and reports a distinct count that is wrong for the
data set.
"""
import io
import sys

import cutplace
from cutplace import errors

cid = cutplace.Cid()
cid.read(
    "<cid>",
    [
        ["d", "format", "delimited"],
        ["f", "branch_id"],
        ["c", "branch_id must be unique", "IsUnique", "branch_id"],
        ["c", "at least 3 branches", "DistinctCount", "branch_id >= 3"],
    ],
)

DATA = "1\n2\n1\n3\n"  # row 3 duplicates row 1; the data contain 3 distinct values, so ">= 3" holds

try:
    cutplace.validate(cid, io.StringIO(DATA))
    print("no error at all")
    sys.exit(1)
except errors.CheckError as error:
    print("error raised by cutplace.validate():", error)
    print("  location:", error.location, " see also:", error.see_also_location)
    is_unique_error = (
        error.location.line == 2 and error.see_also_location is not None and error.see_also_location.line == 0
    )
    if not is_unique_error:
        print("VIOLATION: expected the IsUnique error located at R3 referring back to R1, but got a")
        print("DistinctCount error computed from the 2 rows read before the abort (the data have 3 distinct values).")
        sys.exit(1)
print("ok")
sys.exit(0)
