"""
C05 finding 4: Writer.write_row() runs the checks (which register key and value) BEFORE the row is
actually written. If writing then fails with a DataFormatError (here: a character that cannot be encoded
with the declared encoding), the row is rejected and not part of the output, but its key stays registered.
The corrected row is then rejected as duplicate of a row that was never accepted; the error refers "back"
to its own location.
"""
import os
import sys
import tempfile

import cutplace
from cutplace import errors

cid = cutplace.Cid()
cid.read(
    "<cid>",
    [
        ["d", "format", "delimited"],
        ["d", "encoding", "ascii"],
        ["f", "customer_id"],
        ["f", "name"],
        ["c", "customer_id must be unique", "IsUnique", "customer_id"],
    ],
)

target_path = os.path.join(tempfile.mkdtemp(), "customers.csv")
writer = cutplace.Writer(cid, target_path)
outcome = []
for row in (["1", "Anna"], ["2", "Jürgen"], ["2", "Juergen"]):
    try:
        writer.write_row(row)
        outcome.append("written")
        print("written :", row)
    except errors.DataError as error:
        outcome.append(type(error).__name__)
        print("rejected:", row, "->", type(error).__name__, error)
        last_error = error
writer.close()
with open(target_path, encoding="ascii") as target_file:
    print("file contents: %r" % target_file.read())

if outcome == ["written", "DataFormatError", "CheckError"]:
    print("VIOLATION: ['2', 'Juergen'] was rejected as duplicate although the only earlier row with")
    print("customer_id '2' was rejected and never written; 'first occurrence' is reported at %s, the row itself is at %s"
          % (last_error.see_also_location, last_error.location))
    sys.exit(1)
print("ok")
sys.exit(0)
