"""
C05 finding 5: a rule that contains a non-ASCII white space (for example a no-break space U+00A0 as
produced by spreadsheets, word processors and web pages) next to a field name is ACCEPTED when the CID is
read, but the check stores the field name including that character. Every data row then fails with an
internal KeyError instead of being accepted or rejected, for IsUnique and for DistinctCount, in every
error mode.
"""
import io
import sys

import cutplace
from cutplace import errors

violated = False
for check_type, rule in (
    ("IsUnique", "branch_id,\u00a0customer_id"),
    ("IsUnique", "branch_id\u00a0, customer_id"),
    ("IsUnique", "branch_id,\u2003customer_id"),
    ("DistinctCount", "branch_id\u00a0< 3"),
):
    cid = cutplace.Cid()
    try:
        cid.read(
            "<cid>",
            [
                ["d", "format", "delimited"],
                ["f", "branch_id"],
                ["f", "customer_id"],
                ["c", "some check", check_type, rule],
            ],
        )
    except errors.InterfaceError as error:
        print("%s %r: CID rejected (fine): %s" % (check_type, rule, error))
        continue
    print("%s %r: CID accepted" % (check_type, rule))
    for on_error in ("raise", "continue", "yield"):
        try:
            reader = cutplace.Reader(cid, io.StringIO("1,1\n1,2\n1,1\n"), on_error=on_error)
            items = list(reader.rows())
            reader.close()
            print("  on_error=%s: %r" % (on_error, items))
        except errors.DataError as error:
            print("  on_error=%s: DataError (fine): %s" % (on_error, error))
        except Exception as error:
            print("  on_error=%s: VIOLATION: internal %s: %r on the first (perfectly valid) row"
                  % (on_error, type(error).__name__, error))
            violated = True
sys.exit(1 if violated else 0)
