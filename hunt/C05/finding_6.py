"""
C05 finding 6 (ODS only): rows of a sheet that are grouped (Data > Group and Outline, stored as
<table:table-row-group>) or marked as header rows (<table:table-header-rows>) are silently skipped by the
reader. Duplicates in these rows are never seen, and for duplicates after them the error is located at the
wrong row and refers back to the wrong row.
"""
import os
import sys
import tempfile
import zipfile

import cutplace
from cutplace import errors


def row(value):
    return "<table:table-row><table:table-cell><text:p>%s</text:p></table:table-cell></table:table-row>" % value


# Sheet rows: R1=1, R2=1 (grouped), R3=2 (grouped), R4=3, R5=3
content = (
    '<?xml version="1.0" encoding="UTF-8"?>'
    '<office:document-content xmlns:office="urn:oasis:names:tc:opendocument:xmlns:office:1.0"'
    ' xmlns:table="urn:oasis:names:tc:opendocument:xmlns:table:1.0"'
    ' xmlns:text="urn:oasis:names:tc:opendocument:xmlns:text:1.0">'
    '<office:body><office:spreadsheet><table:table table:name="Sheet1">'
    + row("1")
    + "<table:table-row-group>" + row("1") + row("2") + "</table:table-row-group>"
    + row("3")
    + row("3")
    + "</table:table></office:spreadsheet></office:body></office:document-content>"
)
ods_path = os.path.join(tempfile.mkdtemp(), "grouped.ods")
with zipfile.ZipFile(ods_path, "w") as ods_file:
    ods_file.writestr("mimetype", "application/vnd.oasis.opendocument.spreadsheet")
    ods_file.writestr("content.xml", content)

cid = cutplace.Cid()
cid.read(
    "<cid>",
    [["d", "format", "ods"], ["f", "customer_id"], ["c", "customer_id must be unique", "IsUnique", "customer_id"]],
)
reader = cutplace.Reader(cid, ods_path, on_error="yield")
items = list(reader.rows())
reader.close()
for item in items:
    print(repr(item) if not isinstance(item, Exception) else "%s: %s" % (type(item).__name__, item))

check_errors = [item for item in items if isinstance(item, errors.CheckError)]
# Expected: R2 rejected (see also R1), R5 rejected (see also R4).
actual = [(error.location.line + 1, error.see_also_location.line + 1) for error in check_errors]
expected = [(2, 1), (5, 4)]
print("duplicates reported as (row, first occurrence):", actual, "expected:", expected)
if actual != expected:
    print("VIOLATION: sheet row 2 duplicates row 1 but is not rejected (grouped rows are never read), and the")
    print("duplicate in sheet row 5 is located at / refers back to the wrong rows.")
    sys.exit(1)
sys.exit(0)
