"""
C07 finding 2 (Excel): what a header row, or a row after the validation limit, contains makes OTHER,
perfectly valid rows get rejected, because excel_rows() pads every row to the width of the widest row
of the sheet.

Run: cd /tmp/wh_c07 && PYTHONPATH=/tmp/wh_c07 /venv/bin/python -W ignore /tmp/hunt_c07/finding_2.py
"""
import logging
import os
import sys
import tempfile

import xlsxwriter

from cutplace import applications, errors, interface, validio

logging.disable(logging.CRITICAL)
folder = tempfile.mkdtemp()


def write_xlsx(name, rows):
    path = os.path.join(folder, name)
    workbook = xlsxwriter.Workbook(path)
    worksheet = workbook.add_worksheet()
    for row_index, row in enumerate(rows):
        for column_index, item in enumerate(row):
            worksheet.write_string(row_index, column_index, item)
    workbook.close()
    return path


def cid_for(header):
    return interface.create_cid_from_string(
        "D,Format,Excel\nD,Header,%d\nF,id,,,,Integer\nF,name\n" % header
    )


def outcome(api, header, path, limit):
    try:
        if api == "validate":
            validio.validate(cid_for(header), path, validate_until=limit)
            return "accepted"
        return "accepted, rows=%r" % list(validio.rows(cid_for(header), path, validate_until=limit))
    except errors.DataError as error:
        return "REJECTED: %s" % error


violations = 0

# (a) The header row has a third cell (a remark); the 2 data rows are valid.
path_a = write_xlsx("wide_header.xlsx", [["id", "name", "remark: exported 2024"], ["1", "x"], ["2", "y"]])
print("(a) Header=1, header row has 3 cells, data rows are valid:")
for api in ("validate", "rows"):
    text = outcome(api, 1, path_a, None)
    print("    %-8s -> %s" % (api, text))
    if text.startswith("REJECTED"):
        violations += 1

# (b) No header; only row 4 is broken (3 cells), limit 2 -> must be accepted, rows API must return all 4 rows.
path_b = write_xlsx("wide_late_row.xlsx", [["1", "x"], ["2", "y"], ["3", "z"], ["4", "w", "surplus"]])
print("(b) Header=0, only row 4 has a surplus cell, validation limit 2:")
for api in ("validate", "rows"):
    text = outcome(api, 0, path_b, 2)
    print("    %-8s limit=2 -> %s" % (api, text))
    if text.startswith("REJECTED"):
        violations += 1
# The same file with the limit excluding every row is accepted, so the rejection above really is about rows <= 2:
print("    validate limit=0 -> %s" % outcome("validate", 0, path_b, 0))

# (b) from the command line.
cid_path = os.path.join(folder, "cid.csv")
with open(cid_path, "w", encoding="utf-8") as cid_file:
    cid_file.write("D,Format,Excel\nF,id,,,,Integer\nF,name\n")
exit_code = applications.main(["cutplace", "--until", "2", cid_path, path_b])
print("    command line --until 2 -> exit code %d" % exit_code)
if exit_code != 0:
    violations += 1

print("violations: %d" % violations)
sys.exit(1 if violations else 0)
