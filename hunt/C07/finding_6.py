"""
C07 finding 6 (Excel): a single cell in a header row, or in a row after the validation limit, that is
formatted as date but holds a number Excel dates cannot express (1...60 are "ambiguous" for xlrd, negative
numbers are invalid) rejects the whole data set, although that row must not be validated.

Run: cd /tmp/wh_c07 && PYTHONPATH=/tmp/wh_c07 /venv/bin/python -W ignore /tmp/hunt_c07/finding_6.py
"""
import os
import sys
import tempfile

import xlsxwriter

from cutplace import errors, interface, validio

folder = tempfile.mkdtemp()


def write_xlsx(name, rows, date_cell):
    """Write ``rows`` of strings; the cell at ``date_cell`` = (row, column, number) becomes a date formatted number."""
    path = os.path.join(folder, name)
    workbook = xlsxwriter.Workbook(path)
    worksheet = workbook.add_worksheet()
    date_format = workbook.add_format({"num_format": "yyyy-mm-dd"})
    for row_index, row in enumerate(rows):
        for column_index, item in enumerate(row):
            worksheet.write_string(row_index, column_index, item)
    worksheet.write_number(date_cell[0], date_cell[1], date_cell[2], date_format)
    workbook.close()
    return path


def cid(header):
    return interface.create_cid_from_string("D,Format,Excel\nD,Header,%d\nF,id,,,,Integer\nF,name\n" % header)


def outcome(api, header, path, limit):
    try:
        if api == "validate":
            validio.validate(cid(header), path, validate_until=limit)
            return "accepted"
        return "accepted, rows=%r" % list(validio.rows(cid(header), path, validate_until=limit))
    except errors.DataError as error:
        return "REJECTED: %s" % error


violations = 0
rows = [["id", "name"], ["1", "x"], ["2", "y"], ["3", "z"]]

print("(a) Header=1, header cell B1 is the number 30 formatted as date, data rows are valid:")
path_a = write_xlsx("header_date.xlsx", rows, (0, 1, 30))
for api in ("validate", "rows"):
    text = outcome(api, 1, path_a, None)
    print("    %-8s limit=None -> %s" % (api, text))
    if text.startswith("REJECTED"):
        violations += 1

print("(b) Header=1, only cell B4 (row 4) is the number -1 formatted as date, validation limit 2:")
path_b = write_xlsx("late_date.xlsx", rows, (3, 1, -1))
for api in ("validate", "rows"):
    text = outcome(api, 1, path_b, 2)
    print("    %-8s limit=2    -> %s" % (api, text))
    if text.startswith("REJECTED"):
        violations += 1

print("violations: %d" % violations)
sys.exit(1 if violations else 0)
