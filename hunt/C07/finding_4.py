"""
C07 finding 4 (fixed format): a header line is only skipped if it happens to have exactly the width of a data
row. Any other header line (shorter, longer, empty) makes the whole data set fail although all data rows are
valid, because fixed_rows() cuts the header into fields like any other row.

Run: cd /tmp/wh_c07 && PYTHONPATH=/tmp/wh_c07 /venv/bin/python -W ignore /tmp/hunt_c07/finding_4.py
"""
import io
import sys

from cutplace import errors, interface, validio

CID_TEXT = "D,Format,Fixed\nD,Header,1\nF,id,,,3,Integer\nF,name,,,2\n"
DATA_ROWS = "123xy\n456zz\n"


def outcome(api, data_text, limit=None):
    cid = interface.create_cid_from_string(CID_TEXT)
    try:
        if api == "validate":
            validio.validate(cid, io.StringIO(data_text), validate_until=limit)
            return "accepted"
        return "accepted, rows=%r" % list(validio.rows(cid, io.StringIO(data_text), validate_until=limit))
    except errors.DataError as error:
        return "REJECTED: %s" % error


violations = 0
for title, header_line in [
    ("header as wide as the data (reference)", "id:nm"),
    ("header shorter than the data", "id"),
    ("header longer than the data", "number name"),
    ("empty header line", ""),
]:
    for limit in (None, 0):
        for api in ("validate", "rows"):
            text = outcome(api, header_line + "\n" + DATA_ROWS, limit)
            print("%-40s %-8s limit=%-4s -> %s" % (title, api, limit, text))
            if text.startswith("REJECTED"):
                violations += 1

print("violations: %d" % violations)
sys.exit(1 if violations else 0)
