"""
C07 finding 5 (delimited format): header rows and rows after the validation limit are still checked by the
strict CSV parser and the decoder.

(a) A header row with a stray quote or with a character outside the declared encoding rejects the data set.
(b) validate(path, validate_until=1) rejects because of a byte in row 4, which it should never reach
    ("stops after N data rows"); the same text passed as stream is accepted.
(c) rows(validate_until=2) does not return the later row 4 "unchanged and unvalidated" but reports it.

Run: cd /tmp/wh_c07 && PYTHONPATH=/tmp/wh_c07 /venv/bin/python -W ignore /tmp/hunt_c07/finding_5.py
"""
import io
import os
import sys
import tempfile

from cutplace import errors, interface, validio

folder = tempfile.mkdtemp()


def cid(encoding="cp1252"):
    return interface.create_cid_from_string(
        "D,Format,Delimited\nD,Encoding,%s\nD,Header,1\nF,id,,,,Integer\nF,name\n" % encoding
    )


def outcome(api, source, limit=None, encoding="cp1252"):
    try:
        if api == "validate":
            validio.validate(cid(encoding), source, validate_until=limit)
            return "accepted"
        return "accepted, rows=%r" % list(validio.rows(cid(encoding), source, validate_until=limit))
    except errors.DataError as error:
        return "REJECTED: %s" % error


def data_path(name, data_bytes):
    result = os.path.join(folder, name)
    with open(result, "wb") as data_file:
        data_file.write(data_bytes)
    return result


violations = 0

print("(a) header rows with content the parser does not like, data rows valid, no limit / limit 0:")
for title, source_factory, encoding in [
    ('stray quote: "id"s,name', lambda: io.StringIO('"id"s,name\n1,x\n2,y\n'), "cp1252"),
    ("umlaut in header, encoding ascii", lambda: data_path("umlaut.csv", b"id,Gr\xf6\xdfe\n1,x\n2,y\n"), "ascii"),
]:
    for limit in (None, 0):
        for api in ("validate", "rows"):
            text = outcome(api, source_factory(), limit, encoding)
            print("    %-34s %-8s limit=%-4s -> %s" % (title, api, limit, text))
            if text.startswith("REJECTED"):
                violations += 1

print("(b) validate() with limit 1: only row 4 has a byte outside of ASCII")
late_bytes = b"id,name\n1,x\n2,y\n3,\xff\n"
text_from_path = outcome("validate", data_path("late.csv", late_bytes), 1, "ascii")
print("    from path   -> %s" % text_from_path)
text_from_stream = outcome("validate", io.StringIO("id,name\n1,x\n2,y\n3,\udcff\n"), 1, "ascii")
print("    from stream -> %s" % text_from_stream)
if text_from_path.startswith("REJECTED"):
    violations += 1

print("(c) rows() with limit 2: only row 4 has a stray quote")
text = outcome("rows", io.StringIO('id,name\n1,x\n2,y\n"3"z,x\n'), 2)
print("    rows limit=2 -> %s" % text)
if text.startswith("REJECTED"):
    violations += 1

print("violations: %d" % violations)
sys.exit(1 if violations else 0)
