"""
C07 finding 1: a validation limit makes DistinctCount (check at end) reject data that are valid,
even with limit 0 ("validates nothing").

Run: cd /tmp/wh_c07 && PYTHONPATH=/tmp/wh_c07 /venv/bin/python -W ignore /tmp/hunt_c07/finding_1.py
"""
import io
import logging
import os
import sys
import tempfile

from cutplace import applications, errors, interface, validio

CID_TEXT = (
    "D,Format,Delimited\n"
    "D,Header,1\n"
    "F,id,,,,Integer\n"
    "F,branch\n"
    "C,at least two branches,DistinctCount,branch >= 2\n"
)
DATA_TEXT = "id,branch\n1,x\n2,y\n3,z\n"  # 1 header row + 3 valid data rows, 3 distinct branches


def outcome(api, limit):
    cid = interface.create_cid_from_string(CID_TEXT)
    try:
        if api == "validate":
            validio.validate(cid, io.StringIO(DATA_TEXT), validate_until=limit)
            return "accepted"
        return "accepted, rows=%r" % list(validio.rows(cid, io.StringIO(DATA_TEXT), validate_until=limit))
    except errors.DataError as error:
        return "REJECTED: %s" % error


violations = 0
print("data has no offending row at all; full validation:")
for api in ("validate", "rows"):
    text = outcome(api, None)
    print("  %-8s limit=None -> %s" % (api, text))
    assert text.startswith("accepted"), "data must be valid without limit"
for limit in (0, 1, 2):
    for api in ("validate", "rows"):
        text = outcome(api, limit)
        print("  %-8s limit=%d    -> %s" % (api, limit, text))
        if text.startswith("REJECTED"):
            violations += 1

# Same thing from the command line.
logging.disable(logging.CRITICAL)
folder = tempfile.mkdtemp()
cid_path = os.path.join(folder, "cid.csv")
data_path = os.path.join(folder, "data.csv")
with open(cid_path, "w", encoding="utf-8") as cid_file:
    cid_file.write(CID_TEXT)
with open(data_path, "w", encoding="cp1252") as data_file:
    data_file.write(DATA_TEXT)
exit_code_all = applications.main(["cutplace", cid_path, data_path])
exit_code_0 = applications.main(["cutplace", "--until", "0", cid_path, data_path])
print("  command line without --until: exit code %d" % exit_code_all)
print("  command line --until 0:       exit code %d" % exit_code_0)
if exit_code_all == 0 and exit_code_0 != 0:
    violations += 1

print("violations: %d" % violations)
sys.exit(1 if violations else 0)
