"""
C07 finding 3 (ODS): rows that the ODS file wraps in <table:table-header-rows> (what LibreOffice writes for
"rows to repeat at top") or <table:table-row-group> (grouped / outlined rows) are invisible to the reader.
With Header=1 the real header row is not seen, so the first DATA row is swallowed as header (neither
validated nor returned); grouped data rows are never validated, even without any limit.

Run: cd /tmp/wh_c07 && PYTHONPATH=/tmp/wh_c07 /venv/bin/python -W ignore /tmp/hunt_c07/finding_3.py
"""
import os
import sys
import tempfile
import zipfile

from cutplace import errors, interface, validio

folder = tempfile.mkdtemp()
NAMESPACES = (
    'xmlns:office="urn:oasis:names:tc:opendocument:xmlns:office:1.0" '
    'xmlns:table="urn:oasis:names:tc:opendocument:xmlns:table:1.0" '
    'xmlns:text="urn:oasis:names:tc:opendocument:xmlns:text:1.0"'
)


def write_ods(name, table_body):
    path = os.path.join(folder, name)
    content = (
        '<?xml version="1.0" encoding="UTF-8"?>'
        '<office:document-content %s office:version="1.2"><office:body><office:spreadsheet>'
        '<table:table table:name="data">%s</table:table>'
        "</office:spreadsheet></office:body></office:document-content>" % (NAMESPACES, table_body)
    )
    with zipfile.ZipFile(path, "w") as archive:
        archive.writestr("mimetype", "application/vnd.oasis.opendocument.spreadsheet")
        archive.writestr("content.xml", content)
    return path


def ods_row(*items):
    cells = "".join("<table:table-cell><text:p>%s</text:p></table:table-cell>" % item for item in items)
    return "<table:table-row>%s</table:table-row>" % cells


def cid():
    return interface.create_cid_from_string("D,Format,ODS\nD,Header,1\nF,id,,,,Integer\nF,name\n")


def outcome(api, path):
    try:
        if api == "validate":
            validio.validate(cid(), path)
            return "accepted"
        return "accepted, rows=%r" % list(validio.rows(cid(), path))
    except errors.DataError as error:
        return "rejected: %s" % error


violations = 0

# Reference: plain rows, row 2 is broken -> rejected as it should be.
plain_path = write_ods("plain.ods", ods_row("id", "name") + ods_row("oops", "x") + ods_row("2", "y"))
print("reference (plain rows, row 2 broken):")
for api in ("validate", "rows"):
    print("    %-8s -> %s" % (api, outcome(api, plain_path)))

# (a) Same sheet, but the header row is marked as header row (rows to repeat).
header_rows_path = write_ods(
    "header_rows.ods",
    "<table:table-header-rows>" + ods_row("id", "name") + "</table:table-header-rows>"
    + ods_row("oops", "x") + ods_row("2", "y"),
)
print("(a) Header=1, header row inside table:table-header-rows, row 2 ('oops') is broken, no limit:")
for api in ("validate", "rows"):
    text = outcome(api, header_rows_path)
    print("    %-8s -> %s" % (api, text))
    if text.startswith("accepted"):
        violations += 1

# (b) A broken data row inside a row group.
group_path = write_ods(
    "row_group.ods",
    ods_row("id", "name") + ods_row("1", "x")
    + "<table:table-row-group>" + ods_row("oops", "y") + "</table:table-row-group>" + ods_row("3", "z"),
)
print("(b) Header=1, row 3 ('oops') is broken and part of a table:table-row-group, no limit:")
for api in ("validate", "rows"):
    text = outcome(api, group_path)
    print("    %-8s -> %s" % (api, text))
    if text.startswith("accepted"):
        violations += 1

print("violations: %d" % violations)
sys.exit(1 if violations else 0)
