"""
C14 finding 4: creating a second Writer (or Reader) for the same Cid resets the checks a Writer in
progress relies on: the first writer then accepts and emits a duplicate.
"""
import io
import sys

from cutplace import errors, interface, validio

CID_TEXT = "d,format,delimited\nf,id\nc,id must be unique,IsUnique,id\n"
cid = interface.create_cid_from_string(CID_TEXT)

first_out = io.StringIO()
second_out = io.StringIO()
first_writer = validio.Writer(cid, first_out)
first_writer.write_row(["1"])
print("first writer accepted ['1']")
second_writer = validio.Writer(cid, second_out)  # resets all checks of ``cid``
print("second writer created for the same Cid")
duplicate_accepted = False
try:
    first_writer.write_row(["1"])
    duplicate_accepted = True
    print("first writer accepted ['1'] AGAIN")
except errors.CheckError as error:
    print("first writer rejected the duplicate: %s" % error)
second_rejected_valid_row = False
try:
    second_writer.write_row(["1"])
    print("second writer accepted ['1']")
except errors.CheckError as error:
    second_rejected_valid_row = True
    print("second writer rejected ['1'], its very first row: %s" % error)
second_writer.close()
first_writer.close()
print("output of first writer:  %r" % first_out.getvalue())
print("output of second writer: %r" % second_out.getvalue())

read_back_failed = False
try:
    print("read back: %r" % list(validio.rows(interface.create_cid_from_string(CID_TEXT), io.StringIO(first_out.getvalue()))))
except errors.DataError as error:
    read_back_failed = True
    print("read back of first output FAILED: %s" % error)

if duplicate_accepted or read_back_failed:
    print("VIOLATION: the first writer emitted a non conforming row")
    sys.exit(1)
print("no violation")
sys.exit(0)
