"""
C14 finding 2: with "skip initial space" the delimited writer emits leading blanks unquoted, which the
reader then strips: read back values differ from the written ones and the output can be rejected.
"""
import io
import sys

from cutplace import errors, interface, validio


def round_trip(title, cid_text, rows):
    print("--- %s" % title)
    cid = interface.create_cid_from_string(cid_text)
    out = io.StringIO()
    accepted = []
    with validio.Writer(cid, out) as writer:
        for row in rows:
            try:
                writer.write_row(row)
                accepted.append(row)
            except errors.DataError as error:
                print("rejected %r: %s" % (row, error))
    print("accepted: %r" % accepted)
    print("output:   %r" % out.getvalue())
    try:
        rows_read = list(validio.rows(interface.create_cid_from_string(cid_text), io.StringIO(out.getvalue())))
    except errors.DataError as error:
        print("read back FAILED: %s" % error)
        return True
    print("read back: %r" % rows_read)
    return rows_read != accepted


results = [
    round_trip(
        "value with a leading blank comes back without it",
        "d,format,delimited\nd,skip initial space,true\nf,id\nf,name\n",
        [["1", " a"]],
    ),
    round_trip(
        "distinct values for the writer, duplicates for the reader",
        "d,format,delimited\nd,skip initial space,true\nf,id\nf,name\nc,unique name,IsUnique,name\n",
        [["1", " a"], ["2", "a"]],
    ),
    round_trip(
        "non empty value for the writer, empty value for the reader",
        "d,format,delimited\nd,skip initial space,true\nf,id\nf,name\n",
        [["1", " "]],
    ),
    round_trip(
        "blank as item delimiter: an empty first item vanishes",
        "d,format,delimited\nd,item delimiter,32\nd,skip initial space,true\nf,a,,X\nf,b\n",
        [["", "x"]],
    ),
]
if any(results):
    print("VIOLATION: %d of %d round trips do not return the written values" % (sum(results), len(results)))
    sys.exit(1)
print("no violation")
sys.exit(0)
