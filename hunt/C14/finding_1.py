"""
C14 finding 1: whole-file checks remember rows the writer rejected, so Writer.close() passes
although the emitted output fails the same check when read back.
"""
import io
import sys

from cutplace import errors, interface, validio

CID_TEXTS = {
    "delimited": (
        "d,format,delimited\n"
        "f,id\n"
        "f,grp\n"
        "c,at least two groups,DistinctCount,grp >= 2\n"
        "c,id must be unique,IsUnique,id\n"
    ),
    "fixed": (
        "d,format,fixed\n"
        "d,header,1\n"
        "f,id,,,2\n"
        "f,grp,,,3\n"
        "c,at least two groups,DistinctCount,grp >= 2\n"
        "c,id must be unique,IsUnique,id\n"
    ),
}
ROWS = {
    "delimited": [["1", "a"], ["1", "b"]],  # the second row is a duplicate and gets rejected
    "fixed": [["id", "grp"], ["1", "a"], ["1", "b"]],
}

violated = False
for name, cid_text in CID_TEXTS.items():
    print("--- %s" % name)
    cid = interface.create_cid_from_string(cid_text)
    out = io.StringIO()
    writer = validio.Writer(cid, out)
    for row in ROWS[name]:
        try:
            writer.write_row(row)
            print("accepted %r" % row)
        except errors.DataError as error:
            print("rejected %r: %s" % (row, error))
    close_failed = False
    try:
        writer.close()
        print("Writer.close(): no error")
    except errors.CheckError as error:
        close_failed = True
        print("Writer.close(): %s" % error)
    written = out.getvalue()
    print("output: %r" % written)
    try:
        rows_read = list(validio.rows(interface.create_cid_from_string(cid_text), io.StringIO(written)))
        print("read back: %r" % rows_read)
    except errors.DataError as error:
        print("read back FAILED: %s" % error)
        if not close_failed:
            violated = True

if violated:
    print("VIOLATION: writer closed without error but its output does not validate under the same CID")
    sys.exit(1)
print("no violation")
sys.exit(0)
