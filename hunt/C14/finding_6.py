"""
C14 finding 6: the delimited writer accepts and emits a value longer than the field size limit of the
reader (131072 characters), so the output cannot be read back under the same CID.
"""
import io
import sys

from cutplace import errors, interface, validio

CID_TEXT = "d,format,delimited\nf,id\nf,note\n"
cid = interface.create_cid_from_string(CID_TEXT)
rows = [["1", "x"], ["2", "y" * 131073], ["3", "z"]]
out = io.StringIO()
with validio.Writer(cid, out) as writer:
    for row in rows:
        writer.write_row(row)
        print("accepted row with id=%s, len(note)=%d" % (row[0], len(row[1])))
print("output has %d characters" % len(out.getvalue()))
try:
    rows_read = list(validio.rows(interface.create_cid_from_string(CID_TEXT), io.StringIO(out.getvalue())))
except errors.DataError as error:
    print("read back FAILED: %s: %s" % (type(error).__name__, error))
    print("VIOLATION: the output of the writer cannot be read under the same CID")
    sys.exit(1)
if rows_read != rows:
    print("VIOLATION: read back rows differ")
    sys.exit(1)
print("no violation")
sys.exit(0)
