"""
C14 finding 3: the delimited writer ends every line with CR LF no matter which line delimiter the CID declares.
"""
import io
import os
import sys
import tempfile

from cutplace import interface, validio

EXPECTED = {"lf": "\n", "cr": "\r", "crlf": "\r\n"}
violated = False
for delimiter_name, delimiter in EXPECTED.items():
    cid_text = "d,format,delimited\nd,line delimiter,%s\nf,id\nf,name\n" % delimiter_name
    cid = interface.create_cid_from_string(cid_text)
    expected = "1,a" + delimiter + "2,b" + delimiter

    out = io.StringIO()
    with validio.Writer(cid, out) as writer:
        writer.write_rows([["1", "a"], ["2", "b"]])
    written_to_stream = out.getvalue()

    target_path = os.path.join(tempfile.mkdtemp(), "out.csv")
    with validio.Writer(cid, target_path) as writer:
        writer.write_rows([["1", "a"], ["2", "b"]])
    with open(target_path, "r", newline="", encoding=cid.data_format.encoding) as written_file:
        written_to_path = written_file.read()

    for target, written in (("stream", written_to_stream), ("path", written_to_path)):
        is_ok = written == expected
        print(
            "line delimiter %-4s to %-6s: wrote %r, expected %r -> %s"
            % (delimiter_name, target, written, expected, "ok" if is_ok else "WRONG")
        )
        if not is_ok:
            violated = True

# For comparison: the fixed writer honors the declared line delimiter.
fixed_cid = interface.create_cid_from_string("d,format,fixed\nd,line delimiter,lf\nf,id,,,1\nf,name,,,2\n")
out = io.StringIO()
with validio.Writer(fixed_cid, out) as writer:
    writer.write_rows([["1", "a"], ["2", "b"]])
print("fixed, line delimiter lf: wrote %r" % out.getvalue())

if violated:
    print("VIOLATION: delimited lines are not ended by the declared line delimiter")
    sys.exit(1)
print("no violation")
sys.exit(0)
