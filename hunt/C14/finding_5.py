"""
C14 finding 5: a Writer cannot be bound to a CID given as path although the parameter is ``cid_or_path``
(and Reader, rows() and validate() accept a path): the constructor fails with AttributeError, no row can
be written.
"""
import io
import os
import sys
import tempfile

from cutplace import interface, validio

folder = tempfile.mkdtemp()
violated = False
for format_name, cid_text in (
    ("delimited", "d,format,delimited\nf,id\nf,name\n"),
    ("fixed", "d,format,fixed\nf,id,,,1\nf,name,,,3\n"),
):
    cid_path = os.path.join(folder, "cid_%s.csv" % format_name)
    with open(cid_path, "w", encoding="utf-8") as cid_file:
        cid_file.write(cid_text)
    # The same path works for reading ...
    reader = validio.Reader(cid_path, io.StringIO(""))
    print("%s: Reader(cid_path, ...) works: %s" % (format_name, reader.cid.data_format.format))
    # ... and the Cid read from it works for writing.
    out = io.StringIO()
    with validio.Writer(interface.Cid(cid_path), out) as writer:
        writer.write_row(["1", "abc"])
    print("%s: Writer(Cid(cid_path), ...) wrote %r" % (format_name, out.getvalue()))
    out = io.StringIO()
    try:
        with validio.Writer(cid_path, out) as writer:
            writer.write_row(["1", "abc"])
        print("%s: Writer(cid_path, ...) wrote %r" % (format_name, out.getvalue()))
        if not out.getvalue():
            violated = True
    except Exception as error:
        print("%s: Writer(cid_path, ...) FAILED: %s: %s" % (format_name, type(error).__name__, error))
        violated = True

if violated:
    print("VIOLATION: a writer bound to a CID path emits none of the conforming rows")
    sys.exit(1)
print("no violation")
sys.exit(0)
