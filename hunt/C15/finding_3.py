"""
C15 finding 3: table:covered-table-cell elements (the cells hidden below a merged cell) are skipped, so
all cells to the right of a merged cell move to the left and text stored in a covered cell is lost.
"""
import os
import sys
import tempfile
import zipfile

from cutplace import errors, rowio

NS = (
    'xmlns:office="urn:oasis:names:tc:opendocument:xmlns:office:1.0" '
    'xmlns:table="urn:oasis:names:tc:opendocument:xmlns:table:1.0" '
    'xmlns:text="urn:oasis:names:tc:opendocument:xmlns:text:1.0" '
    'xmlns:dc="http://purl.org/dc/elements/1.1/"'
)


def write_ods(path, rows_xml):
    content = (
        '<?xml version="1.0" encoding="UTF-8"?><office:document-content %s office:version="1.2">'
        '<office:body><office:spreadsheet><table:table table:name="s">%s</table:table>'
        "</office:spreadsheet></office:body></office:document-content>"
    ) % (NS, rows_xml)
    with zipfile.ZipFile(path, "w", zipfile.ZIP_DEFLATED) as ods_zip:
        ods_zip.writestr("mimetype", "application/vnd.oasis.opendocument.spreadsheet")
        ods_zip.writestr("content.xml", content.encode("utf-8"))


def cell(text_xml):
    return '<table:table-cell office:value-type="string"><text:p>%s</text:p></table:table-cell>' % text_xml


def row(cells_xml):
    return "<table:table-row>%s</table:table-row>" % cells_xml


def read(rows_xml):
    with tempfile.TemporaryDirectory() as folder:
        ods_path = os.path.join(folder, "probe.ods")
        write_ods(ods_path, rows_xml)
        try:
            return list(rowio.ods_rows(ods_path, 1))
        except errors.DataFormatError as error:
            return "DataFormatError: %s" % error


def check_table(cases):
    violated = False
    for description, rows_xml, expected in cases:
        actual = read(rows_xml)
        ok = actual == expected
        violated = violated or not ok
        print("%s\n  expected: %r\n  actual:   %r  %s" % (description, expected, actual, "ok" if ok else "<-- VIOLATION"))
    return violated


MERGED = (
    '<table:table-cell office:value-type="string" table:number-columns-spanned="2" table:number-rows-spanned="1">'
    "<text:p>a</text:p></table:table-cell>"
)
CASES = [
    (
        "A1:B1 merged, C1='c'",
        row(MERGED + "<table:covered-table-cell/>" + cell("c")) + row(cell("x") + cell("y") + cell("z")),
        [["a", "", "c"], ["x", "y", "z"]],
    ),
    (
        "A1:C1 merged (covered run of 2), D1='d'",
        row(MERGED.replace('spanned="2"', 'spanned="3"') + '<table:covered-table-cell table:number-columns-repeated="2"/>'
            + cell("d")),
        [["a", "", "", "d"]],
    ),
    (
        "covered cell that still holds its text",
        row(MERGED + '<table:covered-table-cell office:value-type="string"><text:p>b</text:p></table:covered-table-cell>'
            + cell("c")),
        [["a", "b", "c"]],
    ),
    ("control: no merge", row(cell("a") + "<table:table-cell/>" + cell("c")), [["a", "", "c"]]),
]
sys.exit(1 if check_table(CASES) else 0)
