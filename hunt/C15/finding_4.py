"""
C15 finding 4: repeat counts that are not numbers in the sense of ODF (positiveInteger, i.e. [+]?[0-9]+)
are accepted because they are parsed with Python's int(): "1_0" counts as 10, Arabic-Indic or full width
digits count as ASCII digits. The statement requires a data format error for a non-numeric repeat count.
"""
import os
import sys
import tempfile
import zipfile

from cutplace import errors, rowio

NS = (
    'xmlns:office="urn:oasis:names:tc:opendocument:xmlns:office:1.0" '
    'xmlns:table="urn:oasis:names:tc:opendocument:xmlns:table:1.0" '
    'xmlns:text="urn:oasis:names:tc:opendocument:xmlns:text:1.0" '
    'xmlns:dc="http://purl.org/dc/elements/1.1/"'
)


def write_ods(path, rows_xml):
    content = (
        '<?xml version="1.0" encoding="UTF-8"?><office:document-content %s office:version="1.2">'
        '<office:body><office:spreadsheet><table:table table:name="s">%s</table:table>'
        "</office:spreadsheet></office:body></office:document-content>"
    ) % (NS, rows_xml)
    with zipfile.ZipFile(path, "w", zipfile.ZIP_DEFLATED) as ods_zip:
        ods_zip.writestr("mimetype", "application/vnd.oasis.opendocument.spreadsheet")
        ods_zip.writestr("content.xml", content.encode("utf-8"))


def cell(text_xml):
    return '<table:table-cell office:value-type="string"><text:p>%s</text:p></table:table-cell>' % text_xml


def row(cells_xml):
    return "<table:table-row>%s</table:table-row>" % cells_xml


def read(rows_xml):
    with tempfile.TemporaryDirectory() as folder:
        ods_path = os.path.join(folder, "probe.ods")
        write_ods(ods_path, rows_xml)
        try:
            return list(rowio.ods_rows(ods_path, 1))
        except errors.DataFormatError as error:
            return "DataFormatError: %s" % error


def check_table(cases):
    violated = False
    for description, rows_xml, expected in cases:
        actual = read(rows_xml)
        ok = actual == expected
        violated = violated or not ok
        print("%s\n  expected: %r\n  actual:   %r  %s" % (description, expected, actual, "ok" if ok else "<-- VIOLATION"))
    return violated


violated = False
for attribute_name, template in [
    ("table:number-columns-repeated", '<table:table-row><table:table-cell %s="%s"><text:p>a</text:p></table:table-cell></table:table-row>'),
    ("table:number-rows-repeated", '<table:table-row %s="%s"><table:table-cell><text:p>a</text:p></table:table-cell></table:table-row>'
     + row(cell("z"))),
]:
    for count_text in ["1_0", "1_2_3", "\u0662", "\uff12", "\u0967\u0966", "x", "1.0", "0"]:
        actual = read(template % (attribute_name, count_text))
        is_control = count_text in ("x", "1.0", "0")
        ok = isinstance(actual, str) and actual.startswith("DataFormatError")
        if isinstance(actual, list):
            shown = "%d row(s) x %d cell(s) in first row" % (len(actual), len(actual[0]))
        else:
            shown = actual
        print("%s=%a%s -> %s  %s" % (attribute_name, count_text, " (control)" if is_control else "", shown,
                                     "ok" if ok else "<-- VIOLATION (accepted)"))
        violated = violated or not ok
sys.exit(1 if violated else 0)
