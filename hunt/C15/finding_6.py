"""
C15 finding 6: everything nested in text:p is taken as cell text, including elements whose content is not
part of the paragraph text: the phonetic reading of a ruby (text:ruby-text), comments anchored inside the
paragraph (office:annotation with creator, date and its own paragraphs) and foot notes (text:note).
"""
import os
import sys
import tempfile
import zipfile

from cutplace import errors, rowio

NS = (
    'xmlns:office="urn:oasis:names:tc:opendocument:xmlns:office:1.0" '
    'xmlns:table="urn:oasis:names:tc:opendocument:xmlns:table:1.0" '
    'xmlns:text="urn:oasis:names:tc:opendocument:xmlns:text:1.0" '
    'xmlns:dc="http://purl.org/dc/elements/1.1/"'
)


def write_ods(path, rows_xml):
    content = (
        '<?xml version="1.0" encoding="UTF-8"?><office:document-content %s office:version="1.2">'
        '<office:body><office:spreadsheet><table:table table:name="s">%s</table:table>'
        "</office:spreadsheet></office:body></office:document-content>"
    ) % (NS, rows_xml)
    with zipfile.ZipFile(path, "w", zipfile.ZIP_DEFLATED) as ods_zip:
        ods_zip.writestr("mimetype", "application/vnd.oasis.opendocument.spreadsheet")
        ods_zip.writestr("content.xml", content.encode("utf-8"))


def cell(text_xml):
    return '<table:table-cell office:value-type="string"><text:p>%s</text:p></table:table-cell>' % text_xml


def row(cells_xml):
    return "<table:table-row>%s</table:table-row>" % cells_xml


def read(rows_xml):
    with tempfile.TemporaryDirectory() as folder:
        ods_path = os.path.join(folder, "probe.ods")
        write_ods(ods_path, rows_xml)
        try:
            return list(rowio.ods_rows(ods_path, 1))
        except errors.DataFormatError as error:
            return "DataFormatError: %s" % error


def check_table(cases):
    violated = False
    for description, rows_xml, expected in cases:
        actual = read(rows_xml)
        ok = actual == expected
        violated = violated or not ok
        print("%s\n  expected: %r\n  actual:   %r  %s" % (description, expected, actual, "ok" if ok else "<-- VIOLATION"))
    return violated


CASES = [
    (
        "ruby: base text K with reading k",
        row(cell("<text:ruby><text:ruby-base>K</text:ruby-base><text:ruby-text>k</text:ruby-text></text:ruby>")),
        [["K"]],
    ),
    (
        "comment anchored in the paragraph",
        row(cell("a<office:annotation><dc:creator>me</dc:creator><dc:date>2020-01-01T00:00:00</dc:date>"
                 "<text:p>note</text:p></office:annotation>b")),
        [["ab"]],
    ),
    (
        "foot note in the paragraph",
        row(cell('a<text:note text:note-class="footnote"><text:note-citation>1</text:note-citation>'
                 "<text:note-body><text:p>fn</text:p></text:note-body></text:note>b")),
        [["ab"]],
    ),
    (
        "control: comment attached to the cell (as written by LibreOffice Calc)",
        row('<table:table-cell office:value-type="string"><office:annotation><dc:creator>me</dc:creator>'
            "<text:p>note</text:p></office:annotation><text:p>ab</text:p></table:table-cell>"),
        [["ab"]],
    ),
]
sys.exit(1 if check_table(CASES) else 0)
