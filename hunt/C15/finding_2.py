"""
C15 finding 2: rows that ODF wraps into table:table-header-rows, table:table-rows or
table:table-row-group (repeated print header rows, grouped/outlined rows) are silently dropped.
"""
import os
import sys
import tempfile
import zipfile

from cutplace import errors, rowio

NS = (
    'xmlns:office="urn:oasis:names:tc:opendocument:xmlns:office:1.0" '
    'xmlns:table="urn:oasis:names:tc:opendocument:xmlns:table:1.0" '
    'xmlns:text="urn:oasis:names:tc:opendocument:xmlns:text:1.0" '
    'xmlns:dc="http://purl.org/dc/elements/1.1/"'
)


def write_ods(path, rows_xml):
    content = (
        '<?xml version="1.0" encoding="UTF-8"?><office:document-content %s office:version="1.2">'
        '<office:body><office:spreadsheet><table:table table:name="s">%s</table:table>'
        "</office:spreadsheet></office:body></office:document-content>"
    ) % (NS, rows_xml)
    with zipfile.ZipFile(path, "w", zipfile.ZIP_DEFLATED) as ods_zip:
        ods_zip.writestr("mimetype", "application/vnd.oasis.opendocument.spreadsheet")
        ods_zip.writestr("content.xml", content.encode("utf-8"))


def cell(text_xml):
    return '<table:table-cell office:value-type="string"><text:p>%s</text:p></table:table-cell>' % text_xml


def row(cells_xml):
    return "<table:table-row>%s</table:table-row>" % cells_xml


def read(rows_xml):
    with tempfile.TemporaryDirectory() as folder:
        ods_path = os.path.join(folder, "probe.ods")
        write_ods(ods_path, rows_xml)
        try:
            return list(rowio.ods_rows(ods_path, 1))
        except errors.DataFormatError as error:
            return "DataFormatError: %s" % error


def check_table(cases):
    violated = False
    for description, rows_xml, expected in cases:
        actual = read(rows_xml)
        ok = actual == expected
        violated = violated or not ok
        print("%s\n  expected: %r\n  actual:   %r  %s" % (description, expected, actual, "ok" if ok else "<-- VIOLATION"))
    return violated


CASES = [
    (
        "first row marked as header row to repeat (table:table-header-rows)",
        "<table:table-header-rows>" + row(cell("h")) + "</table:table-header-rows>" + row(cell("a")),
        [["h"], ["a"]],
    ),
    (
        "rows b and c grouped (table:table-row-group)",
        row(cell("a")) + "<table:table-row-group>" + row(cell("b")) + row(cell("c")) + "</table:table-row-group>"
        + row(cell("d")),
        [["a"], ["b"], ["c"], ["d"]],
    ),
    (
        "nested row groups",
        '<table:table-row-group><table:table-row-group table:display="false">' + row(cell("a"))
        + "</table:table-row-group>" + row(cell("b")) + "</table:table-row-group>",
        [["a"], ["b"]],
    ),
    (
        "header rows + table:table-rows",
        "<table:table-header-rows>" + row(cell("h")) + "</table:table-header-rows><table:table-rows>"
        + row(cell("a")) + "</table:table-rows>",
        [["h"], ["a"]],
    ),
    ("control: plain rows", row(cell("h")) + row(cell("a")), [["h"], ["a"]]),
]
sys.exit(1 if check_table(CASES) else 0)
