"""
C15 finding 1: a run of empty rows at the end of a sheet, stored as one table:table-row with
table:number-rows-repeated="n", is read as a single row.
"""
import os
import sys
import tempfile
import zipfile

import cutplace
from cutplace import rowio

NS = (
    'xmlns:office="urn:oasis:names:tc:opendocument:xmlns:office:1.0" '
    'xmlns:table="urn:oasis:names:tc:opendocument:xmlns:table:1.0" '
    'xmlns:text="urn:oasis:names:tc:opendocument:xmlns:text:1.0"'
)


def write_ods(path, tables_xml):
    content = (
        '<?xml version="1.0" encoding="UTF-8"?><office:document-content %s office:version="1.2">'
        "<office:body><office:spreadsheet>%s</office:spreadsheet></office:body></office:document-content>"
    ) % (NS, tables_xml)
    with zipfile.ZipFile(path, "w", zipfile.ZIP_DEFLATED) as ods_zip:
        ods_zip.writestr("mimetype", "application/vnd.oasis.opendocument.spreadsheet")
        ods_zip.writestr("content.xml", content.encode("utf-8"))


CELL_A = '<table:table-cell office:value-type="string"><text:p>a</text:p></table:table-cell>'
CASES = [
    # (description, rows xml, logical table)
    (
        "['a'] followed by 2 empty rows (row run)",
        "<table:table-row>%s</table:table-row>"
        '<table:table-row table:number-rows-repeated="2"><table:table-cell/></table:table-row>' % CELL_A,
        [["a"], [""], [""]],
    ),
    (
        "3 rows x 2 empty cells (row run + column run)",
        '<table:table-row table:number-rows-repeated="3"><table:table-cell table:number-columns-repeated="2"/>'
        "</table:table-row>",
        [["", ""], ["", ""], ["", ""]],
    ),
    (
        "3 rows x 0 cells (row run)",
        '<table:table-row table:number-rows-repeated="3"/>',
        [[], [], []],
    ),
    (
        "control: same 2 trailing empty rows written without a run",
        "<table:table-row>%s</table:table-row>"
        "<table:table-row><table:table-cell/></table:table-row>"
        "<table:table-row><table:table-cell/></table:table-row>" % CELL_A,
        [["a"], [""], [""]],
    ),
    (
        "control: run of 2 empty rows in the middle",
        "<table:table-row>%s</table:table-row>"
        '<table:table-row table:number-rows-repeated="2"><table:table-cell/></table:table-row>'
        "<table:table-row>%s</table:table-row>" % (CELL_A, CELL_A),
        [["a"], [""], [""], ["a"]],
    ),
]

violated = False
with tempfile.TemporaryDirectory() as folder:
    for index, (description, rows_xml, expected) in enumerate(CASES):
        ods_path = os.path.join(folder, "case%d.ods" % index)
        write_ods(ods_path, '<table:table table:name="s">%s</table:table>' % rows_xml)
        actual = list(rowio.ods_rows(ods_path, 1))
        ok = actual == expected
        violated = violated or not ok
        print("%s\n  expected: %r\n  actual:   %r  %s" % (description, expected, actual, "ok" if ok else "<-- VIOLATION"))

    # The same through the high level reader.
    cid = cutplace.Cid()
    cid.read("inline", [["d", "format", "ods"], ["f", "x", "", "x"]])
    ods_path = os.path.join(folder, "case0.ods")
    with cutplace.Reader(cid, ods_path) as reader:
        reader_rows = list(reader.rows())
    print("cutplace.Reader on case 0: %r" % reader_rows)
    if reader_rows != CASES[0][2]:
        violated = True
        print("  <-- VIOLATION (expected %r)" % CASES[0][2])

sys.exit(1 if violated else 0)
