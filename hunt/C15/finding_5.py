"""
C15 finding 5: white space characters written literally inside text:p / text:span are not treated the way
ODF defines (ODF 1.2 part 1, 6.1.2: tab, CR and LF count as a blank, runs of blanks collapse into one, blanks
at the start and end of a paragraph are ignored). A content.xml that was indented or line wrapped by an XML
tool is a legal encoding of the same table, but the indentation ends up in the cell texts.
"""
import os
import sys
import tempfile
import zipfile

from cutplace import errors, rowio

NS = (
    'xmlns:office="urn:oasis:names:tc:opendocument:xmlns:office:1.0" '
    'xmlns:table="urn:oasis:names:tc:opendocument:xmlns:table:1.0" '
    'xmlns:text="urn:oasis:names:tc:opendocument:xmlns:text:1.0" '
    'xmlns:dc="http://purl.org/dc/elements/1.1/"'
)


def write_ods(path, rows_xml):
    content = (
        '<?xml version="1.0" encoding="UTF-8"?><office:document-content %s office:version="1.2">'
        '<office:body><office:spreadsheet><table:table table:name="s">%s</table:table>'
        "</office:spreadsheet></office:body></office:document-content>"
    ) % (NS, rows_xml)
    with zipfile.ZipFile(path, "w", zipfile.ZIP_DEFLATED) as ods_zip:
        ods_zip.writestr("mimetype", "application/vnd.oasis.opendocument.spreadsheet")
        ods_zip.writestr("content.xml", content.encode("utf-8"))


def cell(text_xml):
    return '<table:table-cell office:value-type="string"><text:p>%s</text:p></table:table-cell>' % text_xml


def row(cells_xml):
    return "<table:table-row>%s</table:table-row>" % cells_xml


def read(rows_xml):
    with tempfile.TemporaryDirectory() as folder:
        ods_path = os.path.join(folder, "probe.ods")
        write_ods(ods_path, rows_xml)
        try:
            return list(rowio.ods_rows(ods_path, 1))
        except errors.DataFormatError as error:
            return "DataFormatError: %s" % error


def check_table(cases):
    violated = False
    for description, rows_xml, expected in cases:
        actual = read(rows_xml)
        ok = actual == expected
        violated = violated or not ok
        print("%s\n  expected: %r\n  actual:   %r  %s" % (description, expected, actual, "ok" if ok else "<-- VIOLATION"))
    return violated


CASES = [
    ("line wrapped paragraph: 'a b'", row(cell("a\nb")), [["a b"]]),
    ("literal tab: 'a b'", row(cell("a\tb")), [["a b"]]),
    ("two literal blanks: 'a b' (two blanks would be <text:s/>)", row(cell("a  b")), [["a b"]]),
    (
        "indented paragraph content: 'a b'",
        row(cell("\n      <text:span>a</text:span>\n      <text:span>b</text:span>\n    ")),
        [["a b"]],
    ),
    ("control: white space elements", row(cell('a<text:s text:c="2"/>b<text:tab/>c<text:line-break/>d')), [["a  b\tc\nd"]]),
]
sys.exit(1 if check_table(CASES) else 0)
