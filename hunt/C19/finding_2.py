"""
Finding 2: DB2 dialect emits "integer(<limit>)" - INTEGER with a length
argument that is the numeric range limit - which is not a DB2 column type.
"""
import re
import sys

from cutplace import interface, sql


def column_def(length, rule):
    cid = interface.Cid()
    cid.read(
        "finding_2",
        [
            ["D", "Format", "delimited"],
            ["D", "Item delimiter", ","],
            ["F", "amount", "", "", length, "Integer", rule],
        ],
    )
    statement = sql.SqlFactory(cid, "some_table", sql.DB2_SQL_DIALECT).create_table_statement()
    return statement.split("\n")[1].strip()


violations = 0
cases = [
    ("", ""),  # default Integer field without any rule: -2^31...2^31-1
    ("", "0...99999"),
    ("", "-32769...32768"),
    ("", "0...32768"),
    ("", "-2147483648...2147483647"),
    ("2...5", ""),
    ("", "0...32767"),  # smallint: fine
    ("", "0...2147483648"),  # bigint: fine
]
for length, rule in cases:
    line = column_def(length, rule)
    # DB2 integer types do not take any length/precision argument.
    is_broken = re.match(r"^amount (smallint|integer|bigint)\s*\(", line) is not None
    print("length=%-6r rule=%-28r -> %-45s %s" % (length, rule, line, "NOT A DB2 TYPE" if is_broken else "ok"))
    if is_broken:
        violations += 1

if violations:
    print("VIOLATION: %d Integer fields got a DB2 column type 'integer(n)' which DB2 does not have" % violations)
    sys.exit(1)
print("no violation")
sys.exit(0)
