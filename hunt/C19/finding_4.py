"""
Finding 4: keywords of the PL/SQL and DB2 dialects that are not quoted
because the entries in the dialect's keyword list are corrupted
("order,overlaps" as one entry; DB2 words with a glued-on footnote digit
such as "first1", "last1", "next1", "old1", "period1", "prior1").
"""
import sys

from cutplace import interface, sql


def columns(field_names, dialect):
    cid = interface.Cid()
    rows = [["D", "Format", "delimited"], ["D", "Item delimiter", ","]]
    rows += [["F", name, "", "", "1...10", "Text"] for name in field_names]
    cid.read("finding_4", rows)
    statement = sql.SqlFactory(cid, "some_table", dialect).create_table_statement()
    return statement, [line.strip().split()[0] for line in statement.split("\n")[1:-1]]


violations = 0
cases = [
    # ORDER is a reserved word of Oracle SQL and PL/SQL; the list holds "order,overlaps" instead.
    (sql.PL_SQL_DIALECT, ["order", "overlaps", "select"]),
    # Reserved words of DB2 (for z/OS) the list holds as "first1", "last1", ...
    (sql.DB2_SQL_DIALECT, ["first", "last", "next", "old", "period", "prior", "organization", "currval", "select"]),
]
for dialect, names in cases:
    statement, column_names = columns(names, dialect)
    print("%s: %s" % (dialect, statement.replace("\n", " ")))
    corrupted = sorted(word for word in dialect.keywords if not word.isidentifier() or word[-1].isdigit() and word[:-1] in names)
    print("    suspicious entries in %s keyword list: %s" % (dialect, corrupted))
    for name, column_name in zip(names, column_names):
        is_quoted = column_name == '"%s"' % name
        if name == "select":
            assert is_quoted  # control: proper keywords are quoted
        elif not is_quoted:
            violations += 1
            print("    keyword %r is written as %s (not quoted)" % (name, column_name))

if violations:
    print("VIOLATION: %d field names that are keywords of the chosen dialect are not quoted" % violations)
    sys.exit(1)
print("no violation")
sys.exit(0)
