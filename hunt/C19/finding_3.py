"""
Finding 3: above the top of each dialect's integer ladder the generated
NUMBER/DECIMAL column uses the numeric range limit itself as precision
(instead of the number of digits), so the type does not exist in the dialect.
"""
import re
import sys

from cutplace import interface, sql

#: Maximum precision of DECIMAL/NUMBER per dialect.
MAX_PRECISION = {
    str(sql.PL_SQL_DIALECT): 38,
    str(sql.TRANSACT_SQL_DIALECT): 38,
    str(sql.DB2_SQL_DIALECT): 31,
}


def column_def(rule, dialect):
    cid = interface.Cid()
    cid.read(
        "finding_3",
        [
            ["D", "Format", "delimited"],
            ["D", "Item delimiter", ","],
            ["F", "amount", "", "", "", "Integer", rule],
        ],
    )
    statement = sql.SqlFactory(cid, "some_table", dialect).create_table_statement()
    return cid.field_formats[0].valid_range, statement.split("\n")[1].strip()


cases = [
    (sql.PL_SQL_DIALECT, "0...2147483648"),  # 2^31
    (sql.PL_SQL_DIALECT, "-2147483649...0"),  # -(2^31) - 1
    (sql.PL_SQL_DIALECT, "0...4294967296"),  # 2^32
    (sql.PL_SQL_DIALECT, "0...9223372036854775808"),  # 2^63
    (sql.TRANSACT_SQL_DIALECT, "0...9223372036854775808"),  # 2^63
    (sql.TRANSACT_SQL_DIALECT, "-9223372036854775809...0"),  # -(2^63) - 1
    (sql.DB2_SQL_DIALECT, "0...9223372036854775808"),  # 2^63
    (sql.DB2_SQL_DIALECT, "-9223372036854775809...0"),  # -(2^63) - 1
]
violations = 0
for dialect, rule in cases:
    valid_range, line = column_def(rule, dialect)
    match = re.match(r'^"?amount"? (number|decimal)\((\d+)(?:, (\d+))?\)', line)
    if match is None:
        print("%-12s rule=%-28s -> %s   (no decimal/number type; not checked here)" % (dialect, rule, line))
        continue
    precision = int(match.group(2))
    max_precision = MAX_PRECISION[str(dialect)]
    needed = max(len(str(abs(valid_range.lower_limit))), len(str(abs(valid_range.upper_limit))))
    is_broken = precision > max_precision
    print(
        "%-12s rule=%-28s -> %-50s needs %d digits, precision given: %d, dialect maximum: %d -> %s"
        % (dialect, rule, line, needed, precision, max_precision, "NOT A TYPE OF THE DIALECT" if is_broken else "ok")
    )
    if is_broken:
        violations += 1

if violations:
    print("VIOLATION: %d bounded Integer fields got a column type that does not exist in the dialect" % violations)
    sys.exit(1)
print("no violation")
sys.exit(0)
