"""
Finding 1: Transact-SQL dialect picks TINYINT (0...255, unsigned) for Integer
fields whose range includes negative numbers.
"""
import sys

from cutplace import interface, sql

T_SQL_RANGES = {
    "tinyint": (0, 2**8 - 1),  # Transact-SQL tinyint is unsigned
    "smallint": (-(2**15), 2**15 - 1),
    "int": (-(2**31), 2**31 - 1),
    "bigint": (-(2**63), 2**63 - 1),
}


def column_type(rule):
    cid = interface.Cid()
    cid.read(
        "finding_1",
        [
            ["D", "Format", "delimited"],
            ["D", "Item delimiter", ","],
            ["F", "amount", "", "", "", "Integer", rule],
        ],
    )
    statement = sql.SqlFactory(cid, "some_table", sql.TRANSACT_SQL_DIALECT).create_table_statement()
    column_line = statement.split("\n")[1].strip()
    return cid.field_formats[0].valid_range, column_line.split()[1], statement


violations = 0
for rule in ("-1...100", "-128...127", "-256...-1", "-255...255", "-200...10", "0...255", "-32768...32767"):
    valid_range, type_name, statement = column_type(rule)
    lower, upper = valid_range.lower_limit, valid_range.upper_limit
    type_lower, type_upper = T_SQL_RANGES[type_name]
    fits = (type_lower <= lower) and (upper <= type_upper)
    print("rule %-16s -> %-8s (stores %d...%d): %s" % (rule, type_name, type_lower, type_upper, "ok" if fits else "CANNOT STORE %d" % lower))
    if not fits:
        violations += 1
        print("    " + statement.replace("\n", " "))

if violations:
    print("VIOLATION: %d Integer fields got a Transact-SQL type unable to store the lower range limit" % violations)
    sys.exit(1)
print("no violation")
sys.exit(0)
