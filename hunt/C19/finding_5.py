"""
Finding 5: the ANSI dialect has no threshold ladder at all: every bounded
Integer field becomes "int", even when the limits are beyond 2^31, 2^63 or
38 digits (the standard offers BIGINT and DECIMAL(p, 0) / NUMERIC(p, 0)).
"""
import sys

from cutplace import interface, sql


def column_def(rule):
    cid = interface.Cid()
    cid.read(
        "finding_5",
        [
            ["D", "Format", "delimited"],
            ["D", "Item delimiter", ","],
            ["F", "amount", "", "", "", "Integer", rule],
        ],
    )
    statement = sql.SqlFactory(cid, "some_table", sql.ANSI_SQL_DIALECT).create_table_statement()
    return statement.split("\n")[1].strip()


# INT/INTEGER of every SQL implementation following the standard is a binary
# number of at most 32 bit; the other three dialect classes of cutplace itself
# also treat "int" as "up to 2^31 - 1" (sql.MAX_INTEGER).
violations = 0
for rule in (
    "0...2147483647",
    "0...2147483648",
    "-2147483649...0",
    "0...4294967296",
    "0...9223372036854775807",
    "0...9223372036854775808",
    "0...%d" % 10**40,
):
    line = column_def(rule)
    upper = int(rule.split("...")[1])
    lower = int(rule.split("...")[0])
    type_name = line.split()[1]
    fits = not (type_name == "int" and (upper > sql.MAX_INTEGER or lower < -sql.MAX_INTEGER - 1))
    print("rule=%-48s -> %-22s %s" % (rule, line, "ok" if fits else "INT CANNOT STORE LIMIT"))
    if not fits:
        violations += 1

if violations:
    print("VIOLATION: %d bounded Integer fields beyond 32 bit are declared as plain ANSI int" % violations)
    sys.exit(1)
print("no violation")
sys.exit(0)
