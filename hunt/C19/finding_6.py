"""
Finding 6: no CREATE TABLE statement at all (AssertionError, or TypeError
with ``python -O``) for a CID that has an Integer field with a half open
range such as the documented ``0...`` - even though the failing field is
just one of several and the documentation defines the missing limit to be
the 32 bit default.
"""
import sys

from cutplace import interface, sql

violations = 0
cases = [
    ("", "0..."),  # example "weight" from docs/writing-an-icd.rst, section Integer
    ("", "...20"),  # docs: "will use ... -2147483648"
    ("", "1...5, 100..."),
    ("3...", ""),  # length only, at least 3 characters
]
for length, rule in cases:
    cid = interface.Cid()
    cid.read(
        "finding_6",
        [
            ["D", "Format", "delimited"],
            ["D", "Item delimiter", ","],
            ["F", "surname", "", "", "1...60", "Text"],
            ["F", "weight", "", "", length, "Integer", rule],
            ["F", "height", "", "", "", "Integer", "0...8848"],
        ],
    )
    # The CID is fine for validation:
    sample = "17" if rule == "...20" else "720"
    assert cid.field_formats[1].validated(sample) == int(sample)
    for dialect in (sql.ANSI_SQL_DIALECT, sql.DB2_SQL_DIALECT, sql.TRANSACT_SQL_DIALECT, sql.PL_SQL_DIALECT):
        try:
            statement = sql.SqlFactory(cid, "some_table", dialect).create_table_statement()
            column_count = len(statement.split("\n")) - 2
            print("length=%-6r rule=%-16r %-12s -> %d columns" % (length, rule, dialect, column_count))
            if column_count != 3:
                violations += 1
        except Exception as error:
            violations += 1
            print(
                "length=%-6r rule=%-16r %-12s -> no statement: %s(%s)"
                % (length, rule, dialect, type(error).__name__, error)
            )

if violations:
    print("VIOLATION: %d times no CREATE TABLE statement with one column per field was generated" % violations)
    sys.exit(1)
print("no violation")
sys.exit(0)
